//! Seeded random behaviour generators, one family per property.  A behaviour is a JSON list of
//! abstract commands (the same vocabulary TLC emits for replay); data is drawn by the interpreter.
use crate::factory::Factory;
use crate::scen::{Rng, ctr_bits};
use serde_json::{Value, json};

pub fn fac_name(f: &dyn Factory) -> String {
    format!("{}/{}/{}", f.fam(), f.bs(), f.w())
}

pub const BLOCK_KINDS: [&str; 6] = ["cbc", "pcbc", "ige", "cfb", "cfb8", "ofbblk"];
pub const CTR_KINDS: [&str; 6] = ["ctr32be", "ctr32le", "ctr64be", "ctr64le", "ctr128be", "ctr128le"];
pub const CTS_KINDS: [&str; 6] = ["cbccs1", "cbccs2", "cbccs3", "ecbcs1", "ecbcs2", "ecbcs3"];
pub const SEEK_TYPES: [&str; 5] = ["i32", "u32", "u64", "u128", "usize"];

struct G<'a> {
    facs: &'a [Box<dyn Factory>],
    rng: &'a mut Rng,
    thorough: bool,
    cmds: Vec<Value>,
    /// parallel width of the factory picked last (byte lengths are scaled to it)
    cur_w: usize,
    cur_bs: usize,
    /// index of the scenario within the run (stratified choices cycle with it, see `strat`)
    idx: usize,
    /// block index of the special block the last `data_src` put into the stream (all zero / equal to its predecessor)
    special_blk: Option<usize>,
}

fn type_max(t: &str) -> u128 {
    match t {
        "i32" => i32::MAX as u128,
        "u32" => u32::MAX as u128,
        "u64" | "usize" => u64::MAX as u128,
        _ => u128::MAX,
    }
}

impl<'a> G<'a> {
    /// factories that support `kind`; huge blocks are rarer
    fn pick_fac(&mut self, kind: &str) -> usize {
        // CFB-8 moves one byte per step whatever the block size: a backend that offers more parallel blocks than a
        // block has bytes (aes on ARMv8: 21 x 16) is a shape of its own - half of the cfb8 scenarios use one
        let wide = kind.starts_with("cfb8") && self.rng.coin();
        loop {
            let i = self.rng.below(self.facs.len());
            let f = &self.facs[i];
            if !f.supports(kind) {
                continue;
            }
            if wide && f.w() <= f.bs() {
                continue;
            }
            if f.bs() > 48 && !self.rng.chance(1, if self.thorough { 2 } else { 3 }) {
                continue;
            }
            self.cur_w = f.w();
            self.cur_bs = f.bs();
            return i;
        }
    }
    /// all factories computing the same function family as `i` (same cipher, same block size; any width)
    fn same_fn(&self, i: usize, kind: &str) -> Vec<usize> {
        let (fam, bs) = (self.facs[i].fam(), self.facs[i].bs());
        (0..self.facs.len())
            .filter(|&j| self.facs[j].fam() == fam && self.facs[j].bs() == bs && self.facs[j].supports(kind))
            .collect()
    }
    fn name(&self, i: usize) -> String {
        fac_name(self.facs[i].as_ref())
    }
    fn bs(&self, i: usize) -> usize {
        self.facs[i].bs()
    }
    fn w(&self, i: usize) -> usize {
        self.facs[i].w()
    }
    fn unit(&self, i: usize, kind: &str) -> usize {
        if kind == "cfb8" { 1 } else { self.bs(i) }
    }
    /// number of blocks with a bias towards 0, 1, W-1, W, W+1, 2W, 2W+1, 3W+2 (full groups + tails);
    /// `max` is a soft cap that is raised so that at least two full groups and a tail fit
    fn nblocks(&mut self, w: usize, max: usize) -> usize {
        // medium lengths around powers of two (a threshold on the number of blocks would sit there)
        if self.cur_bs <= 32 && self.rng.chance(1, 9) {
            return *self.rng.pick(&[15usize, 16, 17, 31, 32, 33, 64, 65]);
        }
        let cap = max.max(4 * w + 1).min(130);
        let c = [0, 1, 2, w.saturating_sub(1), w, w + 1, 2 * w, 2 * w + 1, 3 * w + 2, 4 * w + 1];
        let n = if self.rng.chance(1, 2) { *self.rng.pick(&c) } else { self.rng.range(0, cap.min(2 * w + 3).max(max)) };
        n.min(cap)
    }
    /// byte length biased around multiples of bs; long enough for full parallel groups of width w
    /// now and then a long message (more than 256, more than 512 blocks) fed in very few calls: an index or a
    /// length kept in a narrow integer type would only show there
    fn long_n(&mut self) -> Option<usize> {
        if self.cur_bs <= 16 && self.rng.chance(1, if self.thorough { 30 } else { 60 }) {
            Some(*self.rng.pick(&[257, 300, 513, 600]) + self.rng.below(3))
        } else {
            None
        }
    }
    fn nbytes_w(&mut self, bs: usize, w: usize, maxblocks: usize) -> usize {
        let k = if self.rng.chance(1, 3) { self.nblocks(w, maxblocks) } else { self.rng.range(0, maxblocks) };
        let d = *self.rng.pick(&[0usize, 0, 1, bs - 1, bs / 2, 2]);
        k * bs + d.min(bs.saturating_sub(1))
    }
    fn nbytes(&mut self, bs: usize, maxblocks: usize) -> usize {
        let w = self.cur_w;
        self.nbytes_w(bs, w, maxblocks)
    }
    fn composition(&mut self, n: usize, maxpart: usize, zeros: bool) -> Vec<usize> {
        let mut v = vec![];
        let mut left = n;
        while left > 0 {
            if zeros && self.rng.chance(1, 6) {
                v.push(0);
                continue;
            }
            let k = self.rng.range(1, maxpart.max(1).min(left));
            v.push(k);
            left -= k;
        }
        if zeros && self.rng.chance(1, 4) {
            v.push(0);
        }
        v
    }
    fn new_obj(&mut self, o: &str, fac: usize, kind: &str, dir: &str, key: u64, iv: Value, src: Value, via: &str) {
        self.cmds.push(json!({"op":"new","o":o,"fac":self.name(fac),"kind":kind,"dir":dir,"key":key,"iv":iv,
            "via":via,"src":src}));
    }
    fn blocks(&mut self, o: &str, n: usize, multi: bool, b2b: bool) {
        self.cmds.push(json!({"op":"blocks","o":o,"n":n,"multi":multi,"b2b":b2b}));
    }
    fn bytes(&mut self, o: &str, n: usize, b2b: bool) {
        self.cmds.push(json!({"op":"bytes","o":o,"n":n,"b2b":b2b}));
    }
    fn oneshot(&mut self, o: &str, how: &str, n: usize, b2b: bool) {
        self.cmds.push(json!({"op":"oneshot","o":o,"how":how,"n":n,"b2b":b2b}));
    }
    fn op(&mut self, op: &str, o: &str) {
        self.cmds.push(json!({"op":op,"o":o}));
        if op == "export" && self.rng.chance(1, 6) {
            // the state asked for twice in a row (reading it must not change it)
            self.cmds.push(json!({"op":op,"o":o}));
        }
    }
    /// drive a block-level object through n units by a random schedule
    fn sched_blocks(&mut self, o: &str, n: usize, w: usize, b2b: Option<bool>, export: bool) {
        // a quarter of the schedules use few, large calls (a path taken only from some number of blocks per call on)
        let maxpart = if self.rng.chance(1, 4) { n.max(1) } else { (2 * w + 2).max(3) };
        for k in self.composition(n, maxpart, false) {
            let multi = self.rng.chance(2, 3);
            let b = b2b.unwrap_or_else(|| self.rng.coin());
            self.blocks(o, k, multi, b);
            if export && self.rng.chance(1, 2) {
                self.op("export", o);
            }
        }
    }
    fn sched_bytes(&mut self, o: &str, n: usize, bs: usize, b2b: Option<bool>, export: bool) {
        // half of the schedules use few, large pieces: only a call that still holds at least W whole blocks after
        // the buffered remainder reaches the cores' parallel keystream path
        let maxpart = if self.rng.coin() { n.max(1) } else { (2 * bs + 1).max(n / 5) };
        for k in self.composition(n, maxpart, true) {
            let b = b2b.unwrap_or_else(|| self.rng.coin());
            self.bytes(o, k, b);
            if export && self.rng.chance(1, 3) {
                self.op("export", o);
            }
        }
    }
    /// an IV spec; CTR kinds get boundary-biased counter fields
    fn iv_for(&mut self, kind: &str, id: u64) -> Value {
        let base = kind.trim_end_matches("core");
        if let Some(bits) = ctr_bits(base) {
            if base != "belt" && self.rng.chance(2, 3) {
                let max: u128 = if bits == 128 { u128::MAX } else { (1u128 << bits) - 1 };
                let k = self.rng.below(4) as u128;
                // carry boundaries: the whole field, every byte boundary inside it (2^8j - 1 - k; the half-word
                // boundaries 2^32, 2^64 get extra weight), and a few small values
                let j = self.rng.range(1, bits as usize / 8) as u32;
                let byteb = if j * 8 >= 128 { u128::MAX } else { (1u128 << (8 * j)) - 1 };
                let half = if bits >= 64 { (1u128 << (bits / 2)) - 1 } else { (1u128 << 16) - 1 };
                let val = *self.rng.pick(&[max - k, max - k, byteb - k.min(byteb), byteb - k.min(byteb), half - k, half - k,
                                           (1u128 << 32) - 1 - k, 0, 1, 255, 256, max / 2]);
                return json!({"rand": id, "field": {"val": (val & max).to_string()}});
            }
            if base == "belt" && self.rng.chance(1, 2) {
                let k = self.rng.below(5) as u128;
                return json!({"belt_s": (u128::MAX - k).to_string()});
            }
        }
        if ctr_bits(base).is_none() && self.rng.chance(1, 8) {
            // degenerate IVs (all zero, all 0xFF): a value-dependent shortcut would only show there
            return json!({"fill": *self.rng.pick(&[0u8, 255])});
        }
        json!({"rand": id})
    }
    /// the data stream of a scenario: mostly random bytes, sometimes degenerate data (all zero, all 0xFF, one
    /// repeated byte) - a data-dependent shortcut in a mode would only show on those
    fn data_src(&mut self, id: u64) -> Value {
        self.special_blk = None;
        let bs = self.cur_bs.max(1);
        match self.rng.below(14) {
            0 => json!({"zero": 1}),
            1 => json!({"fill": 255}),
            2 => json!({"fill": self.rng.below(256)}),
            3 | 4 => {
                // random data with ONE all-zero block (at block k of the stream, its neighbours are not zero)
                // (three of them, at blocks k, k+2 and k+5: whatever the parallel width, one of them is likely to sit
                // inside a parallel group and not at its start)
                let k = self.rng.below(4);
                self.special_blk = Some(if self.rng.coin() { k } else { k + 2 });
                let r = json!({"rand": id});
                let z = json!({"zero": 1});
                let mut src = r.clone();
                for q in [k + 5, k + 2, k] {
                    src = json!({"splice": r.clone(), "at": q * bs, "then": {"splice": z.clone(), "at": (q + 1) * bs, "then": src}});
                }
                src
            }
            5 => {
                // random data in which block k repeats block k-1
                let k = self.rng.range(1, 7);
                self.special_blk = Some(k);
                json!({"splice": {"rand": id}, "at": k * bs, "then":
                    {"splice": {"shift": {"rand": id}, "by": -(bs as i64)}, "at": (k + 1) * bs, "then": {"rand": id}}})
            }
            _ => json!({"rand": id}),
        }
    }
    /// stratified choice: consecutive scenarios cycle through `v`, so that no element is starved by chance
    /// (with a few hundred scenarios and 30-40 kinds a uniform draw leaves some kinds with one or two scenarios)
    fn strat<T: Clone>(&mut self, v: &[T]) -> T {
        v[self.idx % v.len()].clone()
    }
    /// the padded one-shot to use: PKCS#7 half of the time, otherwise one of the other schemes of block-padding
    fn pad_how(&mut self) -> &'static str {
        if self.rng.coin() {
            "padded"
        } else {
            *self.rng.pick(&["padded:iso10126", "padded:ansix923", "padded:iso7816", "padded:zero", "padded:none"])
        }
    }
    fn stream_kind(&mut self) -> &'static str {
        let all = ["ctr32be", "ctr32le", "ctr64be", "ctr64le", "ctr128be", "ctr128le", "ofb", "belt"];
        all[self.rng.below(all.len())]
    }
    fn seek_kind(&mut self) -> &'static str {
        let all = ["ctr32be", "ctr32le", "ctr64be", "ctr64le", "ctr128be", "ctr128le", "belt"];
        all[self.rng.below(all.len())]
    }
}

/// (kind, dir) of a block-level mode; half of the time one whose decrypt direction has a hand-written
/// parallel body (cbc, cfb)
fn block_kind_dir(g: &mut G) -> (&'static str, &'static str) {
    if g.rng.chance(2, 5) {
        (*g.rng.pick(&["cbc", "cfb"]), "dec")
    } else {
        (*g.rng.pick(&BLOCK_KINDS), if g.rng.coin() { "enc" } else { "dec" })
    }
}

/// pick a kind from `kinds`, favouring the ones whose code has hand-written parallel bodies:
/// cbc/cfb decryption (direction forced), keystream cores, ciphertext stealing
fn pick_kind(g: &mut G, kinds: &[String]) -> (String, Option<&'static str>) {
    // stratified over the scenario index: the branch cycles with idx mod 10, the element within with idx div 10
    let r = g.idx % 10;
    let k = g.idx / 10;
    if r < 2 {
        let c: Vec<&String> = kinds.iter().filter(|k| *k == "cbc" || *k == "cfb").collect();
        if !c.is_empty() {
            return (c[k % c.len()].clone(), Some("dec"));
        }
    }
    if r < 4 {
        let c: Vec<&String> = kinds.iter().filter(|k| k.ends_with("core") || CTS_KINDS.contains(&k.as_str())).collect();
        if !c.is_empty() {
            return (c[(2 * k + r % 2) % c.len()].clone(), None);
        }
    }
    if r < 8 {
        // every block-level mode and direction evenly: a parallel body can be added to any of them
        let c: Vec<&String> = kinds.iter().filter(|k| BLOCK_KINDS.contains(&k.as_str())).collect();
        if !c.is_empty() {
            let j = 4 * k + (r - 4);
            return (c[(j / 2) % c.len()].clone(), Some(if j % 2 == 0 { "enc" } else { "dec" }));
        }
    }
    // the rest (byte-level wrappers, buffered types, ...), or everything if nothing is left
    let rest: Vec<&String> = kinds
        .iter()
        .filter(|k| !(k.ends_with("core") || CTS_KINDS.contains(&k.as_str()) || BLOCK_KINDS.contains(&k.as_str())))
        .collect();
    if !rest.is_empty() {
        return (rest[(2 * k + r % 2) % rest.len()].clone(), None);
    }
    (kinds[(2 * k + r % 2) % kinds.len()].clone(), None)
}

/// length of the padded message (for NoPadding and an unaligned message, which is refused: the message length)
fn pad_len(how: &str, n: usize, bs: usize) -> usize {
    match how {
        "padded:none" => n,
        "padded:zero" if n % bs == 0 => n,
        _ => bs * (n / bs + 1),
    }
}

fn core_of(k: &str) -> String {
    format!("{k}core")
}

/// which API families a kind offers
fn is_block(k: &str) -> bool {
    BLOCK_KINDS.contains(&k)
}

/// warm-up behaviours for one process: every kind of object is constructed and used once with a cipher of block size
/// `bs` (the toy family; kinds the size does not support are skipped)
pub fn warmup(facs: &[Box<dyn Factory>], bs: usize) -> Vec<Value> {
    let mut kinds: Vec<String> = BLOCK_KINDS.iter().map(|s| s.to_string()).collect();
    kinds.push("cfbbuf".into());
    for k in CTR_KINDS.iter().chain(["belt", "ofb"].iter()) {
        kinds.push(core_of(k));
        kinds.push(k.to_string());
    }
    for k in CTS_KINDS {
        kinds.push(k.to_string());
    }
    let mut out = vec![];
    for kind in kinds {
        let Some(fi) = facs.iter().position(|f| f.bs() == bs && f.supports(&kind)) else { continue };
        let fname = fac_name(facs[fi].as_ref());
        let ks = kind.ends_with("core") || ctr_bits(&kind).is_some() || kind == "ofb";
        for dir in if ks { vec!["ks"] } else { vec!["enc", "dec"] } {
            let mut cmds = vec![json!({"op":"new","o":"a","fac":fname,"kind":kind,"dir":dir,"key":0,
                "iv":{"rand":0},"src":{"rand":0},"via":"inner"})];
            if CTS_KINDS.contains(&kind.as_str()) {
                cmds.push(json!({"op":"oneshot","o":"a","how":"cts","n":2 * bs + 1,"b2b":false}));
            } else if is_block(&kind) || kind.ends_with("core") {
                cmds.push(json!({"op":"blocks","o":"a","n":2,"multi":true,"b2b":false}));
                cmds.push(json!({"op":"blocks","o":"a","n":1,"multi":false,"b2b":true}));
            } else {
                cmds.push(json!({"op":"bytes","o":"a","n":2 * bs + 1,"b2b":false}));
            }
            out.push(Value::Array(cmds));
        }
    }
    out
}

pub fn generate(prop: &str, tier: &str, facs: &[Box<dyn Factory>], rng: &mut Rng, i: usize) -> Value {
    let mut g = G { facs, rng, thorough: tier == "thorough", cmds: vec![], cur_w: 1, cur_bs: 1, idx: i, special_blk: None };
    match prop {
        "C01" => gen_c01(&mut g),
        "C02" => gen_conf(&mut g, &["cbc", "pcbc", "ige"]),
        "C03" => gen_conf(&mut g, &["cfb", "cfb8", "ofbblk", "cfbbuf", "ofb", "ofbcore"]),
        "C04" => gen_ctr(&mut g, false),
        "C05" => gen_cts(&mut g),
        "C06" => gen_ctr(&mut g, true),
        "C07" => gen_c07(&mut g),
        "C08" => gen_c08(&mut g),
        "C09" => gen_c09(&mut g),
        "C10" => gen_c10(&mut g),
        "C11" => gen_c11(&mut g),
        "C12" => gen_c12(&mut g),
        "C13" => gen_c13(&mut g),
        "C14" => gen_c14(&mut g),
        "C15" => gen_c15(&mut g),
        "C16" => gen_c16(&mut g),
        "C17" => gen_c17(&mut g),
        "C11probe" => probe_c11(&mut g),
        "C17probe" => probe_c17(&mut g),
        _ => panic!("harness: unknown property {prop}"),
    }
    json!(g.cmds)
}

// ---------------------------------------------------------------------------------------------
fn gen_c01(g: &mut G) {
    let choice = g.rng.below(10);
    match choice {
        0..=3 => {
            // block-level pair, possibly different widths on the two sides
            let kind = block_kind_dir(g).0;
            let f = g.pick_fac(kind);
            let fs = g.same_fn(f, kind);
            let fd = *g.rng.pick(&fs);
            let iv = g.iv_for(kind, 0);
            let src = g.data_src(0);
            g.new_obj("e", f, kind, "enc", 0, iv.clone(), src, "inner");
            g.new_obj("d", fd, kind, "dec", 0, iv, json!({"out": "e"}), "inner");
            let n = g.nblocks(g.w(fd), 9) * if kind == "cfb8" { 3 } else { 1 };
            let (we, wd) = (g.w(f), g.w(fd));
            let half = g.rng.range(0, n);
            g.sched_blocks("e", half, we, None, false);
            g.sched_blocks("d", half, wd, None, false);
            g.sched_blocks("e", n - half, we, None, false);
            g.sched_blocks("d", n - half, wd, None, false);
        }
        4 => {
            let f = g.pick_fac("cfbbuf");
            let bs = g.bs(f);
            g.new_obj("e", f, "cfbbuf", "enc", 0, json!({"rand":0}), json!({"rand":0}), "inner");
            g.new_obj("d", f, "cfbbuf", "dec", 0, json!({"rand":0}), json!({"out":"e"}), "inner");
            let n = g.nbytes(bs, 5);
            g.sched_bytes("e", n, bs, Some(false), false);
            g.sched_bytes("d", n, bs, Some(false), false);
        }
        5 | 6 => {
            let kind = g.stream_kind();
            let f = g.pick_fac(kind);
            let bs = g.bs(f);
            let iv = g.iv_for(kind, 0);
            g.new_obj("e", f, kind, "ks", 0, iv.clone(), json!({"rand":0}), "inner");
            g.new_obj("d", f, kind, "ks", 0, iv, json!({"out":"e"}), "inner");
            let n = g.nbytes(bs, 5);
            if g.rng.coin() {
                // contrasting ways of driving the two directions: one call on one side, small pieces on the other
                // (a keystream that depends on batching cancels out when both sides are cut alike)
                let (big, small) = if g.rng.coin() { ("e", "d") } else { ("d", "e") };
                let pieces = g.composition(n, bs + 1, true);
                let bb = g.rng.coin();
                if big == "e" {
                    g.bytes("e", n, bb);
                    for k in pieces { g.bytes(small, k, false); }
                } else {
                    for k in pieces { g.bytes(small, k, false); }
                    g.bytes("d", n, bb);
                }
            } else {
                g.sched_bytes("e", n, bs, None, false);
                g.sched_bytes("d", n, bs, None, false);
            }
        }
        7 => {
            let kind = *g.rng.pick(&CTS_KINDS);
            let f = g.pick_fac(kind);
            let bs = g.bs(f);
            let n = bs + g.nbytes(bs, 6);
            g.new_obj("e", f, kind, "enc", 0, json!({"rand":0}), json!({"rand":0}), "inner");
            g.new_obj("d", f, kind, "dec", 0, json!({"rand":0}), json!({"out":"e"}), "inner");
            let (b1, b2) = (g.rng.coin(), g.rng.coin());
            g.oneshot("e", "cts", n, b1);
            g.oneshot("d", "cts", n, b2);
        }
        8 => {
            let kind = *g.rng.pick(&["cfb", "cfb8"]);
            let f = g.pick_fac(kind);
            let bs = g.bs(f);
            let n = g.nbytes(bs, 5);
            g.new_obj("e", f, kind, "enc", 0, json!({"rand":0}), json!({"rand":0}), "inner");
            g.new_obj("d", f, kind, "dec", 0, json!({"rand":0}), json!({"out":"e"}), "inner");
            let (b1, b2) = (g.rng.coin(), g.rng.coin());
            g.oneshot("e", "async", n, b1);
            g.oneshot("d", "async", n, b2);
        }
        _ => {
            let kind = *g.rng.pick(&["cbc", "pcbc", "ige", "cfb", "ofbblk"]);
            let f = g.pick_fac(kind);
            let bs = g.bs(f);
            let n = g.nbytes(bs, 5);
            g.new_obj("e", f, kind, "enc", 0, json!({"rand":0}), json!({"rand":0}), "inner");
            g.new_obj("d", f, kind, "dec", 0, json!({"rand":0}), json!({"out":"e"}), "inner");
            let (b1, b2) = (g.rng.coin(), g.rng.coin());
            let how = g.pad_how();
            // (NoPadding: aligned messages most of the time - an unaligned one is refused)
            let n = if how == "padded:none" && g.rng.chance(3, 4) { n - n % bs } else { n };
            let room = pad_len(how, n, bs);
            g.cmds.push(json!({"op":"oneshot","o":"e","how":how,"n":n,"b2b":b1,"junklen":room + g.rng.below(3)}));
            g.cmds.push(json!({"op":"oneshot","o":"d","how":how,"n":room,"b2b":b2,"junklen":room + g.rng.below(3)}));
        }
    }
}

/// C02 / C03: every front-end of the listed kinds against the definition
fn gen_conf(g: &mut G, kinds: &[&str]) {
    let kind = *g.rng.pick(kinds);
    let f = g.pick_fac(kind);
    let (bs, w) = (g.bs(f), g.w(f));
    let dir = if (kind == "cbc" || kind == "cfb") && g.rng.chance(2, 3) { "dec" } else if g.rng.coin() { "enc" } else { "dec" };
    let src0 = g.data_src(0);
    let iv0 = g.iv_for(kind, 0);
    match kind {
        "cfbbuf" if g.rng.chance(1, 3) => return gen_byte_edges(g),
        "cfbbuf" => {
            g.new_obj("a", f, kind, dir, 0, iv0.clone(), src0.clone(), "inner");
            let n = g.nbytes(bs, 5);
            g.sched_bytes("a", n, bs, Some(false), true);
        }
        "ofb" => {
            g.new_obj("a", f, kind, "ks", 0, iv0.clone(), src0.clone(), "inner");
            let n = g.nbytes(bs, 5);
            g.sched_bytes("a", n, bs, None, true);
        }
        "ofbcore" => {
            g.new_obj("a", f, kind, "ks", 0, iv0.clone(), src0.clone(), "inner");
            let n = g.nblocks(w, 8);
            g.sched_blocks("a", n, w, None, true);
            if g.rng.coin() {
                g.cmds.push(json!({"op":"ks","o":"a","n":g.rng.range(1, 3),"multi":g.rng.coin()}));
            }
        }
        _ => {
            g.new_obj("a", f, kind, dir, 0, iv0.clone(), src0.clone(), "inner");
            let oneshot = (kind == "cfb" || kind == "cfb8") && g.rng.chance(1, 4);
            let n = g.nblocks(w, 9) * if kind == "cfb8" { 2 } else { 1 };
            if let Some(ln) = g.long_n() {
                let ln = ln + usize::from(kind == "cfb8"); // (cfb8: that many BYTES - its steps are one byte each)
                let cut = *g.rng.pick(&[0usize, 1, 255, 256, ln - 1]);
                let (b1, b2) = (g.rng.coin(), g.rng.coin());
                if cut > 0 {
                    g.blocks("a", cut, true, b1);
                }
                g.blocks("a", ln - cut, true, b2);
                g.op("export", "a");
                g.blocks("a", 1, true, b1);
                return;
            }
            if g.rng.chance(1, 7) {
                // the padded front-ends, every padding scheme: the padded ciphertext and what is left after removing
                // the padding are judged absolutely (a mode may override these provided methods)
                let how = g.pad_how();
                let u = g.unit(f, kind);
                let m = g.nbytes(u, 2 * w.min(4) + 2);
                let m = if how == "padded:none" && g.rng.chance(3, 4) { m - m % u } else { m };
                let room = pad_len(how, m, u);
                let (b1, b2) = (g.rng.coin(), g.rng.coin());
                g.new_obj("pe", f, kind, "enc", 0, iv0.clone(), src0.clone(), "inner");
                g.new_obj("pd", f, kind, "dec", 0, iv0.clone(), json!({"out":"pe"}), "inner");
                g.cmds.push(json!({"op":"oneshot","o":"pe","how":how,"n":m,"b2b":b1,"junklen":room + g.rng.below(3)}));
                g.cmds.push(json!({"op":"oneshot","o":"pd","how":how,"n":room,"b2b":b2,"junklen":room + g.rng.below(3)}));
            }
            if oneshot {
                let pre = g.rng.range(0, n.min(3));
                g.sched_blocks("a", pre, w, None, true);
                let m = g.nbytes(bs, 4);
                let b = g.rng.coin();
                g.oneshot("a", "async", m, b);
            } else {
                g.sched_blocks("a", n, w, None, true);
                g.op("export", "a");
            }
        }
    }
}

/// C04 (CTR flavours) / C06 (BelT): keystream at near and far positions, wrapper and core
fn gen_ctr(g: &mut G, belt: bool) {
    let kind: &str = if belt { "belt" } else { *g.rng.pick(&CTR_KINDS) };
    let f = g.pick_fac(kind);
    let bs = g.bs(f);
    let bits = ctr_bits(kind).unwrap();
    let iv = g.iv_for(kind, 0);
    let core = g.rng.chance(1, 3);
    // a far block index, well inside the keystream
    let far: Option<u128> = if g.rng.chance(1, 2) {
        let e = g.rng.range(8, bits as usize - 1) as u32;
        let base = *g.rng.pick(&[(1u128 << e) - 2, (1u128 << e) - 1, 1u128 << (bits - 1), (1u128 << 31) - 1,
            if bits > 32 { (1u128 << 32) - 1 } else { 1000 }, if bits > 64 { (1u128 << 64) - 2 } else { 77 }]);
        let max = if bits == 128 { u128::MAX } else { (1u128 << bits) - 1 };
        Some(base.min(max - 64))
    } else {
        None
    };
    if core {
        let ck = core_of(kind);
        g.new_obj("a", f, &ck, "ks", 0, iv, json!({"rand":0}), "inner");
        if let Some(b) = far {
            g.cmds.push(json!({"op":"setbpos","o":"a","v":b.to_string()}));
        }
        let w = g.w(f);
        // (now and then a hundred or so blocks in many small calls: a look-ahead cache or a flag handed from one kind
        // of call to the next would need that many calls, or that mix, to go wrong)
        let n = if g.rng.chance(1, 12) { 90 + g.rng.below(60) } else { g.nblocks(w, 8) };
        g.sched_blocks("a", n, w, None, false);
        if g.rng.coin() {
            g.cmds.push(json!({"op":"ks","o":"a","n":g.rng.range(1, 2 * w + 1),"multi":g.rng.coin()}));
        }
    } else {
        g.new_obj("a", f, kind, "ks", 0, iv, json!({"rand":0}), "inner");
        if let Some(b) = far {
            // byte position b*bs + r, if it can be expressed as u128
            if let Some(p) = b.checked_mul(bs as u128) {
                let p = p + g.rng.below(bs) as u128;
                let t = if p <= u64::MAX as u128 && g.rng.coin() { "u64" } else { "u128" };
                g.cmds.push(json!({"op":"seek","o":"a","t":t,"p":p.to_string()}));
            }
        }
        let n = g.nbytes(bs, 5);
        g.sched_bytes("a", n, bs, None, false);
    }
}

fn gen_cts(g: &mut G) {
    let kind = *g.rng.pick(&CTS_KINDS);
    let f = g.pick_fac(kind);
    let (bs, w) = (g.bs(f), g.w(f));
    let dir = if g.rng.coin() { "enc" } else { "dec" };
    // every residue, L = bs, L = k*bs, and long messages that run the private parallel paths
    let n = match g.rng.below(6) {
        0 => bs,
        1 => bs * g.rng.range(1, 2 * w + 2),
        2 => bs * g.rng.range(1, 4) + g.rng.range(1, bs.max(2) - 1).min(bs - 1).max(if bs > 1 { 1 } else { 0 }),
        3 => bs * (2 * w + g.rng.range(0, 3)) + g.rng.below(bs),
        _ => bs + g.nbytes(bs, 5),
    };
    g.new_obj("a", f, kind, dir, 0, json!({"rand":0}), json!({"rand":0}), "inner");
    let b = g.rng.coin();
    g.oneshot("a", "cts", n, b);
}

/// C07: one data stream, several objects of one kind with different schedules and widths
/// C07, counter cores: carry-boundary IVs, a width > 1, one object block by block and one in a single call
fn gen_c07_counters(g: &mut G) {
    let base: &str = if g.rng.chance(1, 7) { "belt" } else { *g.rng.pick(&CTR_KINDS) };
    let kind = core_of(base);
    let f = loop {
        let f = g.pick_fac(&kind);
        if g.w(f) >= 2 { break f; }
    };
    let fs = g.same_fn(f, &kind);
    let w = g.w(f);
    let bits = ctr_bits(base).unwrap();
    let max: u128 = if bits == 128 { u128::MAX } else { (1u128 << bits) - 1 };
    let k = g.rng.below(2 * w + 2) as u128;
    let iv = if base == "belt" {
        json!({"belt_s": (*g.rng.pick(&[u128::MAX - k, (1u128 << 64) - 1 - k, (1u128 << 32) - 1 - k])).to_string()})
    } else {
        let half = if bits >= 64 { (1u128 << (bits / 2)) - 1 } else { (1u128 << 16) - 1 };
        let j = g.rng.range(1, bits as usize / 8 - 1) as u32;
        let val = *g.rng.pick(&[max - k, half - k.min(half), (1u128 << (8 * j)) - 1 - k.min((1u128 << (8 * j)) - 1)]);
        json!({"rand": 0, "field": {"val": (val & max).to_string()}})
    };
    let n = 2 * w + 1 + g.rng.below(w + 1);
    let b2b = g.rng.coin();
    g.new_obj("o0", f, &kind, "ks", 0, iv.clone(), json!({"rand":0}), "inner");
    g.new_obj("o1", f, &kind, "ks", 0, iv.clone(), json!({"rand":0}), "inner");
    let f2 = *g.rng.pick(&fs);
    g.new_obj("o2", f2, &kind, "ks", 0, iv, json!({"rand":0}), "inner");
    for _ in 0..n {
        g.blocks("o0", 1, false, b2b);
    }
    g.op("export", "o0");
    g.blocks("o1", n, true, b2b);
    g.op("export", "o1");
    let w2 = g.w(f2);
    for kk in g.composition(n, w2 + 2, false) {
        g.blocks("o2", kk, true, b2b);
    }
    g.op("export", "o2");
}

fn gen_c07(g: &mut G) {
    if g.rng.chance(1, 4) {
        return gen_c07_counters(g);
    }
    let mut kinds: Vec<String> = BLOCK_KINDS.iter().map(|s| s.to_string()).collect();
    for k in CTR_KINDS.iter().chain(["belt", "ofb"].iter()) {
        kinds.push(core_of(k));
    }
    for k in CTS_KINDS {
        kinds.push(k.to_string());
    }
    let (kind, fdir) = pick_kind(g, &kinds);
    let f = g.pick_fac(&kind);
    let fs = g.same_fn(f, &kind);
    let bs = g.bs(f);
    let dir = if kind.ends_with("core") { "ks" } else if let Some(d) = fdir { d } else if g.rng.coin() { "enc" } else { "dec" };
    let b2b = g.rng.coin();
    let iv = g.iv_for(&kind, 0);
    let src0 = g.data_src(0);
    let wmax = fs.iter().map(|&i| g.w(i)).max().unwrap();
    if CTS_KINDS.contains(&kind.as_str()) {
        let n = bs * g.rng.range(1, 3 * wmax.min(5) + 2) + if g.rng.coin() { g.rng.below(bs) } else { 0 };
        for (j, &fi) in fs.iter().enumerate().take(5) {
            let o = format!("o{j}");
            g.new_obj(&o, fi, &kind, dir, 0, iv.clone(), src0.clone(), "inner");
            g.oneshot(&o, "cts", n, b2b);
        }
        return;
    }
    if let Some(ln) = g.long_n() {
        let ln = ln + usize::from(kind == "cfb8"); // (cfb8: that many BYTES - its steps are one byte each)
        for (j, cuts) in [vec![ln], vec![256, ln - 256], vec![ln - 1, 1], vec![255, 2, ln - 257]].iter().enumerate() {
            let o = format!("o{j}");
            let fi = if j == 0 { f } else { *g.rng.pick(&fs) };
            g.new_obj(&o, fi, &kind, dir, 0, iv.clone(), src0.clone(), "inner");
            for &k in cuts {
                g.blocks(&o, k, true, b2b);
            }
            g.op("export", &o);
        }
        return;
    }
    let mut n = (g.nblocks(wmax, 3 * wmax.min(4) + 2)).max(1) * if kind == "cfb8" { 2 } else { 1 };
    if bs <= 8 && g.rng.chance(1, 80) {
        // very many calls on one object (object 0 is driven one block per call): a per-object call counter, an
        // epoch or a small cache would only wrap or fill up there
        n = 257 + g.rng.below(44);
    }
    let nobj = g.rng.range(2, 4);
    for j in 0..nobj {
        let o = format!("o{j}");
        let fi = if j == 0 { f } else { *g.rng.pick(&fs) };
        g.new_obj(&o, fi, &kind, dir, 0, iv.clone(), src0.clone(), "inner");
    }
    // object 0: one block at a time; others: random partitions; interleave the objects' calls
    let mut plans: Vec<Vec<(usize, bool)>> = vec![];
    plans.push((0..n).map(|_| (1usize, false)).collect());
    for _ in 1..nobj {
        let parts = g.composition(n, 2 * wmax + 2, false);
        plans.push(parts.into_iter().map(|k| (k, g.rng.chance(3, 4))).collect());
    }
    let mut idx = vec![0usize; nobj];
    loop {
        let alive: Vec<usize> = (0..nobj).filter(|&j| idx[j] < plans[j].len()).collect();
        if alive.is_empty() {
            break;
        }
        let j = *g.rng.pick(&alive);
        let (k, multi) = plans[j][idx[j]];
        idx[j] += 1;
        let o = format!("o{j}");
        g.blocks(&o, k, multi, b2b);
        g.op("export", &o);
    }
}

/// C08: byte-level objects fed the same bytes in different pieces; one-shot prefix preservation
/// byte-level objects (buffered CFB, the stream ciphers) at the arithmetic edges of a call: a head that leaves the
/// cursor anywhere inside a block, then ONE call whose length sits within a block of a multiple of 1, 2, 4, 8, 16 or 32
/// blocks, then a short tail; a second object takes the same bytes in one call, a third byte by byte near the edges
fn gen_byte_edges(g: &mut G) {
    let kind: &str = if g.rng.chance(2, 3) { "cfbbuf" } else { g.stream_kind() };
    let f = g.pick_fac(kind);
    let bs = g.bs(f);
    let dir = if kind == "cfbbuf" { if g.idx % 2 == 0 { "dec" } else { "enc" } } else { "ks" };
    let iv = g.iv_for(kind, 0);
    let head = g.rng.below(bs.max(2));
    let mult = *g.rng.pick(&[1usize, 2, 3, 4, 7, 8, 9, 15, 16, 17, 32]);
    let d = g.rng.below(2 * bs.max(2) - 1) as i64 - (bs.max(2) as i64 - 1);
    let big = if bs <= 64 && g.rng.chance(1, 4) {
        *g.rng.pick(&[255usize, 256, 257, 511, 512, 513]) // a length kept in a narrow integer would wrap here
    } else {
        ((mult * bs) as i64 + d).max(1) as usize
    };
    let tail = g.rng.range(1, bs + 1);
    let total = head + big + tail;
    let b2b = kind != "cfbbuf" && g.rng.coin();
    for (o, pieces) in [("a", vec![head, big, tail]), ("b", vec![total]), ("c", vec![head + big - 1, 1, 1, tail - 1])] {
        g.new_obj(o, f, kind, dir, 0, iv.clone(), json!({"rand":0}), "inner");
        for n in pieces {
            if n > 0 {
                g.bytes(o, n, b2b);
            }
        }
        if kind == "cfbbuf" {
            g.op("export", o);
        }
    }
}

fn gen_c08(g: &mut G) {
    if g.rng.chance(1, 8) {
        return gen_byte_edges(g);
    }
    if g.rng.chance(1, 4) {
        let kind = *g.rng.pick(&["cfb", "cfb8"]);
        let f = g.pick_fac(kind);
        let bs = g.bs(f);
        let dir = if g.rng.coin() { "enc" } else { "dec" };
        let b2b = g.rng.coin();
        for j in 0..3 {
            let o = format!("o{j}");
            g.new_obj(&o, f, kind, dir, 0, json!({"rand":0}), json!({"rand":0}), "inner");
            let n = g.nbytes(bs, 4);
            g.oneshot(&o, "async", n, b2b);
        }
        return;
    }
    let kind: &str = if g.rng.chance(1, 4) { "cfbbuf" } else { g.stream_kind() };
    let f = g.pick_fac(kind);
    let fs = g.same_fn(f, kind);
    let bs = g.bs(f);
    let dir = if kind == "cfbbuf" { if g.rng.coin() { "enc" } else { "dec" } } else { "ks" };
    let b2b = kind != "cfbbuf" && g.rng.coin();
    let iv = g.iv_for(kind, 0);
    let n = g.nbytes(bs, 5);
    let nobj = g.rng.range(2, 4);
    let mut plans: Vec<Vec<usize>> = vec![vec![n]];
    for j in 1..nobj {
        let maxp = if j == 1 { (n / 24).max(1) } else { (2 * bs + 1).max(n / 5) };
        plans.push(g.composition(n, maxp, true));
    }
    // one plan ends pieces exactly on block boundaries followed by a short one
    if nobj > 2 && n > bs && n <= 12 * bs {
        let mut p = vec![];
        let mut left = n;
        while left > 0 {
            let k = bs.min(left);
            p.push(k);
            left -= k;
            if left > 0 {
                p.push(1.min(left));
                left -= 1.min(left);
            }
        }
        plans[2] = p;
    }
    for j in 0..nobj {
        let o = format!("o{j}");
        let fi = *g.rng.pick(&fs);
        g.new_obj(&o, fi, kind, dir, 0, iv.clone(), json!({"rand":0}), "inner");
    }
    let mut idx = vec![0usize; nobj];
    loop {
        let alive: Vec<usize> = (0..nobj).filter(|&j| idx[j] < plans[j].len()).collect();
        if alive.is_empty() {
            break;
        }
        let j = *g.rng.pick(&alive);
        let k = plans[j][idx[j]];
        idx[j] += 1;
        g.bytes(&format!("o{j}"), k, b2b);
    }
}

/// C09: export / import at every kind of boundary; encryptor and decryptor agree
fn gen_c09(g: &mut G) {
    let mut kinds: Vec<String> = BLOCK_KINDS.iter().map(|s| s.to_string()).collect();
    kinds.push("cfbbuf".into());
    for k in CTR_KINDS.iter().chain(["belt", "ofb"].iter()) {
        kinds.push(core_of(k));
        kinds.push(k.to_string());
    }
    let (kind, fdir) = pick_kind(g, &kinds);
    let f = g.pick_fac(&kind);
    let (bs, w) = (g.bs(f), g.w(f));
    let iv = g.iv_for(&kind, 0);
    let bytelevel = kind == "cfbbuf" || (!kind.ends_with("core") && !is_block(&kind));
    if bytelevel {
        let dir = if kind == "cfbbuf" { if g.rng.coin() { "enc" } else { "dec" } } else { "ks" };
        g.new_obj("a", f, &kind, dir, 0, iv, json!({"rand":0}), "inner");
        if let Some(bits) = ctr_bits(&kind) {
            // the exported state must also be right after a seek (far positions included) and in the middle of a
            // block (where the core is one block ahead) - checked against the public value, no resumption there
            if g.rng.chance(1, 3) {
                let e = g.rng.range(3, (bits as usize).min(100)) as u32;
                let blk = ((1u128 << e) - 1 - g.rng.below(3) as u128).min(if bits == 128 { u128::MAX >> 8 } else { (1u128 << bits) - 40 });
                let p = blk * bs as u128 + g.rng.below(bs) as u128;
                let t = seek_type_for(g, p);
                g.cmds.push(json!({"op":"seek","o":"a","t":t,"p":p.to_string()}));
                g.op("export", "a");
                let n = g.rng.below(2 * bs);
                g.bytes("a", n, false);
                g.op("export", "a");
                g.bytes("a", bs, false);
                g.op("export", "a");
                return;
            }
        }
        // wrappers are resumed at block boundaries, buffered CFB at any byte
        let k = if kind == "cfbbuf" { g.nbytes(bs, 3) } else { bs * g.rng.range(0, 4) };
        g.sched_bytes("a", k, bs, Some(false), false);
        g.cmds.push(json!({"op":"import","o":"b","from":"a"}));
        let n = g.nbytes(bs, 3);
        let p1 = g.composition(n, (2 * bs).max(n / 5), true);
        for x in p1 {
            g.bytes("a", x, false);
        }
        g.sched_bytes("b", n, bs, Some(false), false);
        if kind == "cfbbuf" && g.rng.coin() {
            g.cmds.push(json!({"op":"import","o":"c","from":"b"}));
            let m = g.nbytes(bs, 2);
            g.bytes("b", m, false);
            g.bytes("c", m, false);
        }
        return;
    }
    let dir = if kind.ends_with("core") { "ks" } else if let Some(d) = fdir { d } else if g.rng.coin() { "enc" } else { "dec" };
    let mul = if kind == "cfb8" { 2 } else { 1 };
    if is_block(&kind) && g.rng.chance(1, 3) {
        // encryptor and matching decryptor report equal states after corresponding data
        g.new_obj("e", f, &kind, "enc", 0, iv.clone(), json!({"rand":0}), "inner");
        g.new_obj("d", f, &kind, "dec", 0, iv, json!({"out":"e"}), "inner");
        let n = g.nblocks(w, 6) * mul;
        for k in g.composition(n, w + 2, false) {
            let (m1, m2) = (g.rng.coin(), g.rng.coin());
            g.blocks("e", k, m1, false);
            g.op("export", "e");
            g.blocks("d", k, m2, false);
            g.op("export", "d");
        }
        return;
    }
    g.new_obj("a", f, &kind, dir, 0, iv, json!({"rand":0}), "inner");
    if kind.ends_with("core") && ctr_bits(&kind).is_some() && g.rng.chance(1, 3) {
        // a core positioned far into the keystream first
        let bits = ctr_bits(&kind).unwrap();
        let e = g.rng.range(3, (bits as usize).min(120) - 1) as u32;
        g.cmds.push(json!({"op":"setbpos","o":"a","v":((1u128 << e) - 1 - g.rng.below(3) as u128).to_string()}));
        g.op("export", "a");
    }
    let k = g.nblocks(w, 5) * mul;
    g.sched_blocks("a", k, w, Some(false), false);
    g.cmds.push(json!({"op":"import","o":"b","from":"a"}));
    let n = g.nblocks(w, 5) * mul;
    g.sched_blocks("a", n, w, Some(false), false);
    g.op("export", "a");
    g.sched_blocks("b", n, w, Some(false), false);
    g.op("export", "b");
    if g.rng.chance(1, 3) {
        // a second generation: resume the resumed object
        g.cmds.push(json!({"op":"import","o":"c","from":"b"}));
        let m = g.nblocks(w, 3) * mul;
        g.sched_blocks("b", m, w, Some(false), false);
        g.op("export", "b");
        g.sched_blocks("c", m, w, Some(false), false);
        g.op("export", "c");
    }
}

fn seek_type_for(g: &mut G, p: u128) -> &'static str {
    let ok: Vec<&'static str> = SEEK_TYPES.iter().copied().filter(|t| p <= type_max(t)).collect();
    ok[g.rng.below(ok.len())]
}

/// C10: seeks (forward, backward, inside blocks, after partial blocks), positions in every type
fn gen_c10(g: &mut G) {
    let kind = g.seek_kind();
    let f = g.pick_fac(kind);
    let bs = g.bs(f) as u128;
    let bits = ctr_bits(kind).unwrap();
    let iv = g.iv_for(kind, 0);
    if g.rng.chance(1, 4) {
        // the core itself: set_block_pos / get_block_pos anywhere in the keystream (for BelT also beyond the
        // point where the running value s = E(IV) + i wraps around 2^128), then a few blocks
        let ck = core_of(kind);
        let w = g.w(f);
        let max: u128 = if bits == 128 { u128::MAX } else { (1u128 << bits) - 1 };
        g.new_obj("x", f, &ck, "ks", 0, iv, json!({"zero":1}), "inner");
        g.cmds.push(json!({"op":"rem","o":"x"}));
        let nops = g.rng.range(2, 6);
        for _ in 0..nops {
            match g.rng.below(3) {
                0 => {
                    let e = g.rng.range(1, bits as usize - 1) as u32;
                    let k = g.rng.below(70) as u128;
                    let b = *g.rng.pick(&[(1u128 << e) - 1, 1u128 << e, (1u128 << e) + k, max - 64 - k, max / 2 + k,
                        max / 2 - k, k, max - (max >> 3) + k]);
                    g.cmds.push(json!({"op":"setbpos","o":"x","v":b.min(max - 64).to_string()}));
                }
                1 => {
                    let n = g.rng.range(1, w + 2);
                    g.sched_blocks("x", n, w, None, false);
                }
                _ => {}
            }
            g.cmds.push(json!({"op":"rem","o":"x"}));
        }
        return;
    }
    let span: u128 = bs * g.rng.range(2, 5) as u128;
    // window [base, base + span) of the keystream; far windows start on a block boundary
    let maxblk: u128 = if bits == 128 { u128::MAX / bs - 8 } else { (1u128 << bits) - 10 };
    let baseblk: u128 = if g.rng.chance(1, 2) {
        0
    } else {
        let e = g.rng.range(4, 100) as u32;
        let c = *g.rng.pick(&[(1u128 << 28) - 1, (1u128 << 32) / bs, ((1u128 << 32) / bs).saturating_sub(1),
            (1u128 << 31) / bs, (1u128 << e.min(120)) + 3, (1u128 << 64) / bs, (1u128 << 63) / bs]);
        c.min(maxblk)
    };
    let base = baseblk * bs;
    // reference: linear run over the window
    g.new_obj("r", f, kind, "ks", 0, iv.clone(), json!({"zero":1}), "inner");
    if base > 0 {
        let t = seek_type_for(g, base);
        g.cmds.push(json!({"op":"seek","o":"r","t":t,"p":base.to_string()}));
    }
    g.bytes("r", span as usize, false);
    // subject: random walk inside the window
    g.new_obj("x", f, kind, "ks", 0, iv, json!({"zero":1}), "inner");
    let mut cur = 0u128;
    let nops = g.rng.range(3, 9);
    for _ in 0..nops {
        match g.rng.below(4) {
            0 | 1 => {
                let p = base + g.rng.below(span as usize) as u128;
                let t = seek_type_for(g, p);
                g.cmds.push(json!({"op":"seek","o":"x","t":t,"p":p.to_string()}));
                cur = p;
            }
            2 => {
                if cur < base {
                    continue;
                }
                let room = (base + span - cur) as usize;
                let n = g.rng.below(room.min(2 * bs as usize + 2) + 1);
                let _r1 = g.rng.coin();
                g.bytes("x", n, _r1);
                cur += n as u128;
            }
            _ => {
                let t = *g.rng.pick(&SEEK_TYPES);
                g.cmds.push(json!({"op":"pos","o":"x","t":t}));
                if g.rng.chance(1, 3) {
                    g.cmds.push(json!({"op":"rem","o":"x"}));
                }
            }
        }
    }
    for t in SEEK_TYPES {
        if g.rng.coin() {
            g.cmds.push(json!({"op":"pos","o":"x","t":t}));
        }
    }
}

/// C11: behaviour in the last few blocks before the keystream ends
fn gen_c11(g: &mut G) {
    let kind = g.seek_kind();
    let f = g.pick_fac(kind);
    let bs = g.bs(f);
    let bits = ctr_bits(kind).unwrap();
    let iv = g.iv_for(kind, 0);
    g.new_obj("x", f, kind, "ks", 0, iv, json!({"rand":0}), "inner");
    // start k blocks (and maybe some bytes) before the end
    let kblocks = g.rng.range(0, 4) as i64;
    let back = g.rng.below(bs) as i64;
    let mut remaining: i64; // bytes left before the end
    if bits <= 64 && g.rng.chance(3, 4) {
        // by seeking (u64 reaches the end for 32-bit counters, u128 for 64-bit ones)
        let off = kblocks * bs as i64 + back;
        let t = if bits == 32 && g.rng.coin() { "u64" } else { "u128" };
        g.cmds.push(json!({"op":"seek","o":"x","t":t,"p":{"end": -off}}));
        remaining = off;
    } else {
        // by positioning the core before wrapping it (from_core path)
        g.cmds.push(json!({"op":"setbpos","o":"x","v":{"end": -kblocks}}));
        remaining = kblocks * bs as i64;
    }
    let nops = g.rng.range(3, 8);
    for _ in 0..nops {
        match g.rng.below(6) {
            0 => g.op("rem", "x"),
            1 => {
                let t = *g.rng.pick(&SEEK_TYPES);
                g.cmds.push(json!({"op":"pos","o":"x","t":t}));
            }
            _ => {
                // request lengths around what is left
                let c = [remaining - 1, remaining, remaining + 1, remaining + bs as i64, 0, 1, bs as i64,
                         remaining - bs as i64, remaining / 2, remaining + 2 * bs as i64 + 1];
                let n = (*g.rng.pick(&c)).max(0);
                let _r1 = g.rng.coin();
                g.bytes("x", n as usize, _r1);
                if n <= remaining {
                    remaining -= n;
                }
                if g.rng.coin() {
                    g.op("rem", "x");
                    g.cmds.push(json!({"op":"pos","o":"x","t":"u128"}));
                }
            }
        }
    }
    // seek beyond the end is an error (targets at least one whole block past the end)
    if bits <= 64 && g.rng.coin() {
        let past = (bs as i64) * g.rng.range(1, 3) as i64 + g.rng.below(bs) as i64;
        g.cmds.push(json!({"op":"seek","o":"x","t":"u128","p":{"end": past}}));
        g.cmds.push(json!({"op":"pos","o":"x","t":"u128"}));
    }
}

/// C12: the same calls in place and buffer-to-buffer
fn gen_c12(g: &mut G) {
    let mut kinds: Vec<String> = BLOCK_KINDS.iter().map(|s| s.to_string()).collect();
    for k in CTR_KINDS.iter().chain(["belt", "ofb"].iter()) {
        kinds.push(core_of(k));
        kinds.push(k.to_string());
    }
    for k in CTS_KINDS {
        kinds.push(k.to_string());
    }
    kinds.push("async".into());
    kinds.push("padded".into());
    let (mut kind, fdir) = pick_kind(g, &kinds);
    let mut how = "";
    if kind == "async" {
        kind = g.rng.pick(&["cfb", "cfb8"]).to_string();
        how = "async";
    } else if kind == "padded" {
        kind = g.rng.pick(&["cbc", "pcbc", "ige", "cfb", "ofbblk"]).to_string();
        how = g.pad_how();
    } else if CTS_KINDS.contains(&kind.as_str()) {
        how = "cts";
    }
    let f = g.pick_fac(&kind);
    let (bs, w) = (g.bs(f), g.w(f));
    let dir = if kind.ends_with("core") || ctr_bits(&kind).is_some() || kind == "ofb" { "ks" } else if let Some(d) = fdir { d } else if g.rng.coin() { "enc" } else { "dec" };
    let iv = g.iv_for(&kind, 0);
    let src0 = g.data_src(0);
    g.new_obj("p", f, &kind, dir, 0, iv.clone(), src0.clone(), "inner");
    g.new_obj("q", f, &kind, dir, 0, iv, src0, "inner");
    if !how.is_empty() {
        let n = match how {
            "cts" => bs + g.nbytes(bs, 2 * w.min(4) + 2),
            h if h.starts_with("padded") && dir == "dec" => bs * g.rng.range(1, 4),
            "padded:none" if g.rng.chance(3, 4) => bs * g.rng.range(0, 4),
            _ => g.nbytes(bs, 4),
        };
        if how.starts_with("padded") {
            let room = if dir == "enc" { pad_len(how, n, bs) } else { n };
            g.cmds.push(json!({"op":"oneshot","o":"p","how":how,"n":n,"b2b":false}));
            g.cmds.push(json!({"op":"oneshot","o":"q","how":how,"n":n,"b2b":true,"junklen":room + g.rng.below(2)}));
        } else {
            g.oneshot("p", how, n, false);
            g.oneshot("q", how, n, true);
        }
        return;
    }
    let bytelevel = !kind.ends_with("core") && !is_block(&kind);
    if bytelevel {
        let n = g.nbytes(bs, 5);
        for k in g.composition(n, (2 * bs + 1).max(n / 5), true) {
            g.bytes("p", k, false);
            g.bytes("q", k, true);
        }
    } else {
        let n = g.nblocks(w, 9) * if kind == "cfb8" { 2 } else { 1 };
        for k in g.composition(n, 2 * w + 2, false) {
            let multi = g.rng.chance(2, 3);
            g.blocks("p", k, multi, false);
            g.op("export", "p");
            g.blocks("q", k, multi, true);
            g.op("export", "q");
        }
    }
}

/// C13: contract violations are rejected without side effects; nothing panics
/// ... and everybody else's territory: panics are judged by C13 only, so whatever the other properties drive (every
/// front-end, batching, byte cuts, exports and imports, clones, long calls) is driven here as well
fn gen_c13_foreign(g: &mut G) {
    match (g.idx / 3) % 9 {
        0 => gen_c10(g),
        1 | 2 => gen_byte_edges(g),
        3 => gen_c08(g),
        4 => gen_c07(g),
        5 => gen_c09(g),
        6 => gen_c16(g),
        7 => gen_c01(g),
        _ => gen_conf(g, &["cbc", "pcbc", "ige", "cfb", "cfb8", "ofbblk", "cfbbuf", "ofb", "ofbcore"]),
    }
}

fn gen_c13(g: &mut G) {
    match g.rng.below(17) {
        13..=16 => return gen_c13_foreign(g),
        // the keystream generators' own territory (boundary IVs, far positions, cores and wrappers, seeks inside the
        // keystream): nothing there violates a contract, so nothing may panic (debug-build overflow checks included)
        10 | 11 => return gen_ctr(g, g.idx % 5 == 0),
        12 => return gen_c13_foreign(g),
        0 | 1 => {
            // ciphertext stealing: short messages rejected, everything else accepted
            let kind = *g.rng.pick(&CTS_KINDS);
            let f = g.pick_fac(kind);
            let bs = g.bs(f);
            let dir = if g.rng.coin() { "enc" } else { "dec" };
            g.new_obj("a", f, kind, dir, 0, json!({"rand":0}), json!({"rand":0}), "inner");
            let n = match g.rng.below(4) {
                0 => g.rng.below(bs),
                1 => bs - 1,
                2 => bs,
                _ => g.nbytes(bs, 3),
            };
            let b2b = g.rng.coin();
            if b2b && g.rng.coin() {
                let jl = (n as i64 + *g.rng.pick(&[-1i64, 1, 2, bs as i64])).max(0) as usize;
                g.cmds.push(json!({"op":"oneshot","o":"a","how":"cts","n":n,"b2b":true,"junklen":jl}));
            } else {
                g.oneshot("a", "cts", n, b2b);
            }
        }
        2 | 3 => {
            // buffer-to-buffer with unequal lengths: blocks, keystream bytes, async one-shot
            let which = g.rng.below(3);
            if which == 0 {
                let kind = *g.rng.pick(&BLOCK_KINDS);
                let f = g.pick_fac(kind);
                let w = g.w(f);
                let dir = if g.rng.coin() { "enc" } else { "dec" };
                g.new_obj("a", f, kind, dir, 0, json!({"rand":0}), json!({"rand":0}), "inner");
                let pre = g.rng.below(3);
                g.sched_blocks("a", pre, w, None, false);
                let n = g.rng.range(0, 4);
                let jl = (n as i64 + *g.rng.pick(&[-1i64, 1, 2])).max(0) as usize;
                let u = g.unit(f, kind);
                g.cmds.push(json!({"op":"blocks","o":"a","n":n,"multi":true,"b2b":true,"junklen":jl * u}));
                g.op("export", "a");
                g.sched_blocks("a", 2, w, None, true);
            } else if which == 1 {
                let kind = g.stream_kind();
                let f = g.pick_fac(kind);
                let bs = g.bs(f);
                g.new_obj("a", f, kind, "ks", 0, json!({"rand":0}), json!({"rand":0}), "inner");
                let pre = g.nbytes(bs, 1);
                g.bytes("a", pre, false);
                let n = g.nbytes(bs, 2);
                let jl = (n as i64 + *g.rng.pick(&[-1i64, 1, bs as i64])).max(0) as usize;
                g.cmds.push(json!({"op":"bytes","o":"a","n":n,"b2b":true,"junklen":jl}));
                let _r1 = g.rng.coin();
                g.bytes("a", bs + 1, _r1);
            } else {
                let kind = *g.rng.pick(&["cfb", "cfb8"]);
                let f = g.pick_fac(kind);
                let bs = g.bs(f);
                let dir = if g.rng.coin() { "enc" } else { "dec" };
                g.new_obj("a", f, kind, dir, 0, json!({"rand":0}), json!({"rand":0}), "inner");
                let n = g.nbytes(bs, 2);
                let jl = (n as i64 + *g.rng.pick(&[-1i64, 1, bs as i64])).max(0) as usize;
                g.cmds.push(json!({"op":"oneshot","o":"a","how":"async","n":n,"b2b":true,"junklen":jl}));
            }
        }
        4 => {
            // padded decryption: non-multiples rejected; arbitrary data either unpads or errs, never panics
            let kind = *g.rng.pick(&["cbc", "pcbc", "ige", "cfb", "ofbblk", "cfb8"]);
            let f = g.pick_fac(kind);
            let bs = g.bs(f);
            g.new_obj("a", f, kind, "dec", 0, json!({"rand":0}), json!({"rand":0}), "inner");
            let n = if g.rng.coin() { g.nbytes(bs, 3) } else { bs * g.rng.range(0, 3) };
            let b2b = g.rng.coin();
            let jl = if g.rng.chance(1, 4) { n.saturating_sub(1) } else { n + g.rng.below(2) };
            let how = g.pad_how();
            g.cmds.push(json!({"op":"oneshot","o":"a","how":how,"n":n,"b2b":b2b,"junklen":jl}));
        }
        5 => {
            // padded encryption with exactly enough, more than enough, or too little room
            let kind = *g.rng.pick(&["cbc", "pcbc", "ige", "cfb", "ofbblk"]);
            let f = g.pick_fac(kind);
            let bs = g.bs(f);
            g.new_obj("a", f, kind, "enc", 0, json!({"rand":0}), json!({"rand":0}), "inner");
            let n = g.nbytes(bs, 3);
            let how = g.pad_how();
            let n = if how != "padded" && g.rng.coin() { n - n % bs } else { n };
            let need = pad_len(how, n, bs);
            let jl = (need as i64 + *g.rng.pick(&[0i64, 0, 1, -1, -(bs as i64)])).max(0) as usize;
            // (in place there is always room; NoPadding refuses an unaligned message in both forms)
            let b2b = how != "padded:none" || g.rng.coin();
            g.cmds.push(json!({"op":"oneshot","o":"a","how":how,"n":n,"b2b":b2b,"junklen":jl}));
        }
        6 | 7 => {
            // construction from slices of right and wrong lengths
            let mut kinds: Vec<String> = BLOCK_KINDS.iter().map(|s| s.to_string()).collect();
            kinds.push("cfbbuf".into());
            for k in CTR_KINDS.iter().chain(["belt", "ofb"].iter()) {
                kinds.push(k.to_string());
            }
            for k in CTS_KINDS {
                kinds.push(k.to_string());
            }
            let kind = g.strat(&kinds);
            let f = g.pick_fac(&kind);
            let bs = g.bs(f);
            let kl = g.facs[f].keylen();
            let ivfull = if kind == "ige" { 2 * bs } else if kind.starts_with("ecbcs") { 0 } else { bs };
            let keylen = *g.rng.pick(&[kl, kl, kl, kl - 1, kl + 1, 0]);
            let ivlen = if kind.starts_with("ecbcs") { 0 } else {
                *g.rng.pick(&[ivfull, ivfull, ivfull, ivfull - 1, ivfull + 1, bs, 2 * bs, 0])
            };
            let dir = if ctr_bits(&kind).is_some() || kind == "ofb" { "ks" } else if g.rng.coin() { "enc" } else { "dec" };
            g.cmds.push(json!({"op":"new","o":"a","fac":g.name(f),"kind":kind,"dir":dir,"key":0,"iv":{"rand":0},
                "via":"slices","src":{"rand":0},"keylen":keylen,"ivlen":ivlen}));
        }
        8 => {
            // zero-length input to every entry point
            let mut kinds: Vec<String> = BLOCK_KINDS.iter().map(|s| s.to_string()).collect();
            kinds.push("cfbbuf".into());
            for k in CTR_KINDS.iter().chain(["belt", "ofb"].iter()) {
                kinds.push(core_of(k));
                kinds.push(k.to_string());
            }
            let kind = g.strat(&kinds);
            let f = g.pick_fac(&kind);
            let dir = if kind.ends_with("core") || ctr_bits(&kind).is_some() || kind == "ofb" { "ks" } else if g.rng.coin() { "enc" } else { "dec" };
            g.new_obj("a", f, &kind, dir, 0, json!({"rand":0}), json!({"rand":0}), "inner");
            let b = g.rng.coin();
            if kind.ends_with("core") || is_block(&kind) {
                g.blocks("a", 0, true, b);
                let _r1 = g.rng.coin();
                g.blocks("a", 1, _r1, b);
                g.blocks("a", 0, true, !b);
                if (kind == "cfb" || kind == "cfb8") && g.rng.coin() {
                    g.oneshot("a", "async", 0, b);
                } else if is_block(&kind) && g.rng.coin() {
                    let how = g.pad_how();
                    g.cmds.push(json!({"op":"oneshot","o":"a","how":how,"n":0,"b2b":b,"junklen":g.bs(f)}));
                }
            } else {
                g.bytes("a", 0, b && kind != "cfbbuf");
                g.bytes("a", 1, false);
                g.bytes("a", 0, false);
            }
            g.op("export", "a");
        }
        9 if g.rng.coin() => {
            // ordinary requests on the stream ciphers with boundary IVs (counter field / E(IV) near a wrap) and at far
            // positions: nothing here violates a contract, so nothing may be refused or panic
            let kind = g.stream_kind();
            let f = g.pick_fac(kind);
            let bs = g.bs(f);
            let iv = g.iv_for(kind, 0);
            g.new_obj("a", f, kind, "ks", 0, iv, json!({"rand":0}), "inner");
            for _ in 0..g.rng.range(1, 4) {
                let n = g.nbytes(bs, 4);
                let b = g.rng.coin();
                g.bytes("a", n, b);
                if ctr_bits(kind).is_some() && g.rng.coin() {
                    let t = *g.rng.pick(&SEEK_TYPES);
                    g.cmds.push(json!({"op":"pos","o":"a","t":t}));
                    g.op("rem", "a");
                }
            }
        }
        _ => {
            // seeks with every integer type to targets that fit it
            let kind = g.seek_kind();
            let f = g.pick_fac(kind);
            let bs = g.bs(f) as u128;
            let bits = ctr_bits(kind).unwrap();
            g.new_obj("a", f, kind, "ks", 0, json!({"rand":0}), json!({"rand":0}), "inner");
            for _ in 0..g.rng.range(1, 4) {
                let t = *g.rng.pick(&SEEK_TYPES);
                let tm = type_max(t);
                let end: u128 = if bits == 128 { u128::MAX } else { ((1u128 << bits) - 1).saturating_mul(bs) };
                let c = [0u128, 1, bs - 1, bs, bs + 1, tm, tm - 1, tm / 2, tm - bs, (tm / bs) * bs];
                let mut p = *g.rng.pick(&c);
                p = p.min(tm);
                // keep clear of the known-finding region (the last, never-generated block)
                if bits < 128 && p > end - bs && p < end + bs {
                    p = end;
                }
                g.cmds.push(json!({"op":"seek","o":"a","t":t,"p":p.to_string()}));
                g.cmds.push(json!({"op":"pos","o":"a","t":*g.rng.pick(&SEEK_TYPES)}));
                let _r1 = g.rng.below(3);
                g.bytes("a", _r1, false);
            }
        }
    }
}

/// C14: interchangeable front-ends
fn gen_c14(g: &mut G) {
    match g.idx % 8 {
        0 if (g.idx / 8) % 3 == 2 => {
            // CFB-8: byte by byte vs many bytes per call vs the one-shot form
            let f = g.pick_fac("cfb8");
            let w = g.w(f);
            let dir = if g.rng.coin() { "enc" } else { "dec" };
            let iv = g.iv_for("cfb8", 0);
            let n = (g.nblocks(w, 6) * 2).max(2) + g.rng.below(3);
            for o in ["one", "byte", "many"] {
                g.new_obj(o, f, "cfb8", dir, 0, iv.clone(), json!({"rand":0}), "inner");
            }
            let b = g.rng.coin();
            g.oneshot("one", "async", n, b);
            for _ in 0..n {
                g.blocks("byte", 1, false, false);
            }
            g.sched_blocks("many", n, w, None, true);
            g.op("export", "byte");
            g.op("export", "many");
        }
        0 => {
            // buffered vs block-level vs one-shot CFB
            let f = g.pick_fac("cfb");
            let (bs, w) = (g.bs(f), g.w(f));
            let dir = if g.rng.coin() { "enc" } else { "dec" };
            let nb = g.nblocks(w, 6);
            let tail = if g.rng.coin() { g.rng.below(bs) } else { 0 };
            g.new_obj("buf", f, "cfbbuf", dir, 0, json!({"rand":0}), json!({"rand":0}), "inner");
            g.new_obj("blk", f, "cfb", dir, 0, json!({"rand":0}), json!({"rand":0}), "inner");
            g.new_obj("one", f, "cfb", dir, 0, json!({"rand":0}), json!({"rand":0}), "inner");
            g.sched_bytes("buf", nb * bs + tail, bs, Some(false), false);
            g.sched_blocks("blk", nb, w, None, true);
            let b = g.rng.coin();
            g.oneshot("one", "async", nb * bs + tail, b);
        }
        1 => {
            // OFB: block encryptor, block decryptor, keystream core, byte stream
            let f = g.pick_fac("ofb");
            let (bs, w) = (g.bs(f), g.w(f));
            let nb = g.nblocks(w, 6).max(1);
            g.new_obj("e", f, "ofbblk", "enc", 0, json!({"rand":0}), json!({"rand":0}), "inner");
            g.new_obj("d", f, "ofbblk", "dec", 0, json!({"rand":0}), json!({"rand":0}), "inner");
            g.new_obj("k", f, "ofbcore", "ks", 0, json!({"rand":0}), json!({"rand":0}), "inner");
            g.new_obj("s", f, "ofb", "ks", 0, json!({"rand":0}), json!({"rand":0}), "inner");
            g.sched_blocks("e", nb, w, None, true);
            g.sched_blocks("d", nb, w, None, true);
            g.sched_blocks("k", nb, w, None, true);
            g.sched_bytes("s", nb * bs, bs, None, false);
            g.op("export", "e");
            g.op("export", "d");
            g.op("export", "k");
            g.op("export", "s");
        }
        2 => {
            // CTR core driven block-wise vs byte-level cipher
            let kind: &str = if g.rng.chance(1, 5) { "belt" } else { *g.rng.pick(&CTR_KINDS) };
            let f = g.pick_fac(kind);
            let (bs, w) = (g.bs(f), g.w(f));
            let iv = g.iv_for(kind, 0);
            let nb = g.nblocks(w, 7).max(1);
            g.new_obj("k", f, &core_of(kind), "ks", 0, iv.clone(), json!({"rand":0}), "inner");
            g.new_obj("s", f, kind, "ks", 0, iv, json!({"rand":0}), "inner");
            g.sched_blocks("k", nb, w, None, false);
            g.sched_bytes("s", nb * bs, bs, None, false);
            g.op("export", "k");
            g.op("export", "s");
        }
        3 => {
            // CBC-CSx on whole blocks vs the cbc crate
            let v = g.rng.range(1, 3);
            let kind = format!("cbccs{v}");
            let f = g.pick_fac(&kind);
            let (bs, w) = (g.bs(f), g.w(f));
            let dir = if g.rng.coin() { "enc" } else { "dec" };
            let nb = g.rng.range(1, 2 * w.min(4) + 3);
            g.new_obj("t", f, &kind, dir, 0, json!({"rand":0}), json!({"rand":0}), "inner");
            let b = g.rng.coin();
            g.oneshot("t", "cts", nb * bs, b);
            // the plain mode sees the same bytes (for CS3 decryption: with the last two blocks exchanged back)
            let src = if dir == "dec" && v == 3 && nb >= 2 {
                json!({"splice": {"rand":0}, "at": (nb - 2) * bs, "then":
                    {"splice": {"shift": {"rand":0}, "by": bs as i64}, "at": (nb - 1) * bs, "then": {"shift": {"rand":0}, "by": -(bs as i64)}}})
            } else {
                json!({"rand":0})
            };
            g.new_obj("c", f, "cbc", dir, 0, json!({"rand":0}), src, "inner");
            g.sched_blocks("c", nb, w, None, false);
        }
        4 => {
            // ECB-CSx on whole blocks vs raw block encryption (through the logged cipher graph)
            let v = g.rng.range(1, 3);
            let kind = format!("ecbcs{v}");
            let f = g.pick_fac(&kind);
            let (bs, w) = (g.bs(f), g.w(f));
            let dir = if g.rng.coin() { "enc" } else { "dec" };
            let nb = g.rng.range(1, 2 * w.min(4) + 3);
            g.new_obj("t", f, &kind, dir, 0, json!({"rand":0}), json!({"rand":0}), "inner");
            let b = g.rng.coin();
            g.oneshot("t", "cts", nb * bs, b);
        }
        _ => {
            // construction from key bytes vs from a keyed cipher
            let mut kinds: Vec<String> = BLOCK_KINDS.iter().map(|s| s.to_string()).collect();
            kinds.push("cfbbuf".into());
            for k in CTR_KINDS.iter().chain(["belt", "ofb"].iter()) {
                kinds.push(k.to_string());
            }
            let j = g.idx / 8;
            let kind = kinds[(j / 2) % kinds.len()].clone();
            let f = g.pick_fac(&kind);
            let (bs, w) = (g.bs(f), g.w(f));
            let bytelevel = !is_block(&kind);
            let dir = if ctr_bits(&kind).is_some() || kind == "ofb" { "ks" } else if j % 2 == 0 { "enc" } else { "dec" };
            let iv = g.iv_for(&kind, 0);
            let vias = ["inner", "key_iv", "slices"];
            let n = if bytelevel { g.nbytes(bs, 3) } else { g.nblocks(w, 5) };
            for (j, via) in vias.iter().enumerate() {
                let o = format!("o{j}");
                g.new_obj(&o, f, &kind, dir, 0, iv.clone(), json!({"rand":0}), via);
                if bytelevel {
                    g.sched_bytes(&o, n, bs, Some(false), false);
                } else {
                    g.sched_blocks(&o, n, w, Some(false), false);
                    g.op("export", &o);
                }
            }
        }
    }
}

/// C15: error propagation and data dependence
fn gen_c15(g: &mut G) {
    let mut kinds: Vec<String> = BLOCK_KINDS.iter().map(|s| s.to_string()).collect();
    for k in CTR_KINDS.iter().chain(["belt", "ofb"].iter()) {
        kinds.push(k.to_string());
    }
    for _ in 0..3 {
        kinds.push("cfbbuf".into()); // the one byte-level type with error propagation of its own
    }
    let kind = g.strat(&kinds);
    let f = g.pick_fac(&kind);
    let (bs, w) = (g.bs(f), g.w(f));
    let iv = g.iv_for(&kind, 0);
    let bytelevel = !is_block(&kind);
    if kind == "cfbbuf" && g.rng.coin() {
        // one long piece (many whole blocks in a single call) between a short head and a tail, perturbed near the end
        // of the long piece half of the time: a bulk path inside the buffered type would show there
        let head = if g.rng.coin() { 0 } else { g.rng.below(bs.max(2)) };
        let big = (bs - head % bs) % bs + bs * g.rng.range(3, 14) + if g.rng.coin() { 0 } else { g.rng.below(bs) };
        let tail = g.rng.range(1, 3 * bs);
        let total = head + big + tail;
        let end = head + big;
        let j = if g.rng.coin() { end.saturating_sub(1 + g.rng.below(3 * bs)) } else { g.rng.below(total) };
        let delta = vec![1u8 << g.rng.below(8)];
        g.new_obj("a", f, &kind, "dec", 0, iv.clone(), json!({"rand":0}), "inner");
        g.new_obj("b", f, &kind, "dec", 0, iv.clone(), json!({"xor": {"rand":0}, "at": j, "delta": delta}), "inner");
        for o in ["a", "b"] {
            for n in [head, big, tail] {
                if n > 0 {
                    g.bytes(o, n, false);
                }
            }
        }
        return;
    }
    let dir = if ctr_bits(&kind).is_some() || kind == "ofb" { "ks" } else { "dec" };
    // perturbation unit: block for cbc/cfb/pcbc/ige, byte otherwise
    let pu = if ["cbc", "cfb", "pcbc", "ige"].contains(&kind.as_str()) { bs } else { 1 };
    let units_total = if pu == 1 { (g.rng.range(2, 4) * bs + g.rng.below(bs)).max(3) } else { g.rng.range(2, 2 * w.min(4) + 4) };
    // (cfb8: sometimes enough bytes for one full parallel chunk of the backend and a bit more)
    let units_total = if kind == "cfb8" && g.rng.coin() { units_total.max(w + g.rng.range(1, w + 2)) } else { units_total };
    let j = g.rng.below(units_total); // 0-based perturbed unit
    let mut delta = vec![0u8; pu];
    if g.rng.coin() {
        let b = g.rng.below(pu);
        delta[b] = 1 << g.rng.below(8);
    } else {
        delta = g.rng.bytes(pu);
        if delta.iter().all(|&x| x == 0) {
            delta[0] = 0x80;
        }
    }
    let total_bytes = units_total * pu;
    // (sometimes degenerate ciphertext: all blocks equal, all zero, equal to a degenerate IV - a shortcut taken for
    // such blocks would change the set of affected bytes only there)
    let base = g.data_src(0);
    // (a special block in the stream: alter the unit right before it, or the block itself, most of the time)
    let j = match g.special_blk {
        Some(k) if pu == bs && k < units_total && g.rng.chance(3, 4) => if k >= 1 && g.rng.chance(2, 3) { k - 1 } else { k },
        _ => j,
    };
    g.new_obj("a", f, &kind, dir, 0, iv.clone(), base.clone(), "inner");
    g.new_obj("b", f, &kind, dir, 0, iv.clone(), json!({"xor": base.clone(), "at": j * pu, "delta": delta}), "inner");
    if bytelevel {
        g.sched_bytes("a", total_bytes, bs, Some(false), false);
        g.sched_bytes("b", total_bytes, bs, Some(false), false);
        if dir == "ks" {
            // a third object with unrelated data: the keystream must not depend on it
            g.new_obj("c", f, &kind, dir, 0, iv, json!({"rand":7}), "inner");
            g.sched_bytes("c", total_bytes, bs, Some(false), false);
        }
    } else {
        let nunits = if kind == "cfb8" { total_bytes } else { total_bytes / bs };
        g.sched_blocks("a", nunits, w, None, false);
        g.sched_blocks("b", nunits, w, None, false);
        if (kind == "cfb" || kind == "cfb8") && g.rng.chance(1, 3) {
            // one-shot forms with a partial tail
            let n = total_bytes + g.rng.below(bs);
            g.new_obj("p", f, &kind, dir, 0, iv.clone(), json!({"rand":0}), "inner");
            g.new_obj("q", f, &kind, dir, 0, iv, json!({"xor": {"rand":0}, "at": j * pu, "delta": delta}), "inner");
            g.oneshot("p", "async", n, false);
            g.oneshot("q", "async", n, false);
        }
    }
}

/// C16: clones at every point, continued in any interleaving, against fresh replays
fn gen_c16(g: &mut G) {
    let mut kinds: Vec<String> = BLOCK_KINDS.iter().map(|s| s.to_string()).collect();
    for _ in 0..3 {
        kinds.push("cfbbuf".into()); // byte cursor + feedback block: the richest state among the Clone types
    }
    for k in CTR_KINDS.iter().chain(["ofb", "belt"].iter()) {
        // (BeltCtrCore is not Clone: the clone step is then skipped, the separate-instances part still applies)
        kinds.push(core_of(k));
        kinds.push(k.to_string());
    }
    for k in CTS_KINDS {
        kinds.push(k.to_string());
    }
    let kind = g.strat(&kinds);
    let f = g.pick_fac(&kind);
    let (bs, w) = (g.bs(f), g.w(f));
    let iv = g.iv_for(&kind, 0);
    let ks = kind.ends_with("core") || ctr_bits(&kind).is_some() || kind == "ofb";
    let dir = if ks { "ks" } else if g.rng.coin() { "enc" } else { "dec" };
    if CTS_KINDS.contains(&kind.as_str()) {
        let n = bs + g.nbytes(bs, 3);
        g.new_obj("o", f, &kind, dir, 0, iv.clone(), json!({"rand":0}), "inner");
        g.cmds.push(json!({"op":"clone","o":"c","from":"o"}));
        g.new_obj("r", f, &kind, dir, 0, iv, json!({"rand":0}), "inner");
        let order = if g.rng.coin() { ["o", "c", "r"] } else { ["c", "r", "o"] };
        for o in order {
            let _r1 = g.rng.coin();
            g.oneshot(o, "cts", n, _r1);
        }
        return;
    }
    let bytelevel = !kind.ends_with("core") && !is_block(&kind);
    let mul = if kind == "cfb8" { 2 } else { 1 };
    if let Some(bits) = ctr_bits(&kind) {
        if bits <= 64 && !kind.ends_with("core") && g.rng.chance(1, 4) {
            // clone close to the end of the keystream: both must hit the limit at the same place
            g.new_obj("o", f, &kind, dir, 0, iv.clone(), json!({"rand":0}), "inner");
            let k = g.rng.range(1, 3) as i64;
            g.cmds.push(json!({"op":"seek","o":"o","t":"u128","p":{"end": -(k * bs as i64)}}));
            let n0 = g.rng.below(bs);
            g.bytes("o", n0, false);
            g.cmds.push(json!({"op":"clone","o":"c","from":"o"}));
            for who in ["c", "o"] {
                g.op("rem", who);
                g.cmds.push(json!({"op":"pos","o":who,"t":"u128"}));
                let left = k as usize * bs - n0;
                let n = *g.rng.pick(&[left, left + 1, left - 1, left + bs]);
                g.bytes(who, n, false);
                g.bytes(who, 1, false);
                g.op("rem", who);
            }
            return;
        }
    }
    if g.rng.chance(1, 4) {
        // construct - use - DROP - construct again: the second instance (another key, same IV; most likely at the
        // address the first one had) must behave like a third one that is built while everything else is still alive
        let n1 = if g.rng.coin() {
            if bytelevel { bs } else { mul } // exactly one block: "the last step of the dropped instance was its first"
        } else if bytelevel {
            g.nbytes(bs, 2).max(1)
        } else {
            (g.nblocks(w, 3) * mul).max(mul)
        };
        let n2 = if bytelevel { g.nbytes(bs, 3).max(1) } else { (g.nblocks(w, 4) * mul).max(mul) };
        g.new_obj("t", f, &kind, dir, 1, iv.clone(), json!({"rand":0}), "inner"); // the twin, built first, used last
        for round in 0..2 {
            g.new_obj("a", f, &kind, dir, 0, iv.clone(), json!({"rand":3}), "inner");
            if bytelevel { g.sched_bytes("a", n1, bs, Some(false), false) } else { g.sched_blocks("a", n1, w, Some(false), false) }
            let o = if round == 0 { "b" } else { "b2" };
            if round == 0 {
                // built IN PLACE: `*slot = Mode::new(..)` drops the first instance where it stands and the second
                // one lives at exactly its address (heap boxes freed and allocated again do not reliably do that)
                g.cmds.push(json!({"op":"new","o":o,"fac":g.name(f),"kind":kind,"dir":dir,"key":1,"iv":iv.clone(),
                    "via":"inner","src":json!({"rand":0}),"into":"a"}));
            } else {
                g.op("drop", "a");
                g.new_obj(o, f, &kind, dir, 1, iv.clone(), json!({"rand":0}), "inner");
            }
            if bytelevel { g.sched_bytes(o, n2, bs, Some(false), false) } else { g.sched_blocks(o, n2, w, Some(false), true) }
            g.op("drop", o);
        }
        if bytelevel { g.sched_bytes("t", n2, bs, Some(false), false) } else { g.sched_blocks("t", n2, w, Some(false), true) }
        return;
    }
    // other live instances used in between: an unrelated mode under another key, and two NEIGHBOURS of the
    // same type - same IV under another key (y1), same key with another IV (y2) - each of which is replayed
    // alone at the end (y1t, y2t): hidden shared state keyed too coarsely would make them differ
    let other_kind = *g.rng.pick(&["cbc", "cfb", "ofbblk"]);
    g.new_obj("z", f, other_kind, "enc", 5, json!({"rand":9}), json!({"rand":9}), "inner");
    let neighbours = g.rng.chance(1, 2);
    let ny = if bytelevel { g.nbytes(bs, 2).max(1) } else { (g.nblocks(w, 3) * mul).max(mul) };
    let py = g.composition(ny, if bytelevel { 2 * bs } else { w + 2 }, false);
    let mut iy = 0usize;
    let iv2 = g.iv_for(&kind, 7);
    if neighbours {
        // y2 first, then y1 directly before o: consecutive constructions share the IV but not the key
        g.new_obj("y2", f, &kind, dir, 0, iv2.clone(), json!({"rand":12}), "inner");
        g.new_obj("y1", f, &kind, dir, 1, iv.clone(), json!({"rand":11}), "inner");
    }
    g.new_obj("o", f, &kind, dir, 0, iv.clone(), json!({"rand":0}), "inner");
    // history before the clone
    let h1 = if bytelevel { g.nbytes(bs, 2) } else { g.nblocks(w, 4) * mul };
    if bytelevel { g.sched_bytes("o", h1, bs, Some(false), false) } else { g.sched_blocks("o", h1, w, Some(false), false) }
    let seeked = ctr_bits(&kind).is_some() && !kind.ends_with("core") && g.rng.chance(1, 4);
    if seeked {
        let p = g.rng.below(4 * bs);
        g.cmds.push(json!({"op":"seek","o":"o","t":"u64","p":p.to_string()}));
    }
    g.cmds.push(json!({"op":"clone","o":"c","from":"o"}));
    // continuations: original continues with its own stream, the clone with another one
    let n2 = if bytelevel { g.nbytes(bs, 2) } else { g.nblocks(w, 4) * mul };
    let n3 = if bytelevel { g.nbytes(bs, 2) } else { g.nblocks(w, 4) * mul };
    // re-create the clone with a spliced source so that it sees different data after the clone point
    g.cmds.pop();
    if g.rng.chance(1, 2) {
        // Clone::clone_from into a live instance of the same type that is in a different state
        // (other IV, other amount of data consumed, hence another in-block offset)
        let iv2 = g.iv_for(&kind, 6);
        g.new_obj("c", f, &kind, dir, 0, iv2, json!({"rand":6}), "inner");
        let pre = if bytelevel { g.rng.range(1, 2 * bs) } else { g.rng.range(1, 3) * mul };
        if bytelevel { g.bytes("c", pre, false) } else { g.blocks("c", pre, true, false) }
        g.cmds.push(json!({"op":"clone","o":"c","from":"o","into":"c","src":{"rand":3}}));
    } else {
        g.cmds.push(json!({"op":"clone","o":"c","from":"o","src":{"rand":3}}));
    }
    let p2 = g.composition(n2, if bytelevel { (2 * bs).max(n2 / 4) } else { w + 2 }, bytelevel);
    let p3 = g.composition(n3, if bytelevel { (2 * bs).max(n3 / 4) } else { w + 2 }, bytelevel);
    let (mut i2, mut i3) = (0, 0);
    let seekable = ctr_bits(&kind).is_some() && !kind.ends_with("core");
    while i2 < p2.len() || i3 < p3.len() {
        let pick_o = i3 >= p3.len() || (i2 < p2.len() && g.rng.coin());
        let (o, k) = if pick_o { i2 += 1; ("o", p2[i2 - 1]) } else { i3 += 1; ("c", p3[i3 - 1]) };
        if bytelevel { g.bytes(o, k, false) } else { let m = g.rng.coin(); g.blocks(o, k, m, false); g.op("export", o); }
        if g.rng.chance(1, 3) {
            g.blocks("z", 1, false, false);
        }
        if neighbours && iy < py.len() && g.rng.coin() {
            for y in ["y1", "y2"] {
                if bytelevel { g.bytes(y, py[iy], false) } else { g.blocks(y, py[iy], true, false) }
            }
            iy += 1;
        }
        // a clone must also REPORT what the original would: position and remaining blocks
        if ks && g.rng.chance(1, 2) {
            let who = if g.rng.coin() { "o" } else { "c" };
            if seekable {
                let t = *g.rng.pick(&SEEK_TYPES);
                g.cmds.push(json!({"op":"pos","o":who,"t":t}));
            }
            g.op("rem", who);
        }
    }
    if seekable && !seeked {
        // ... and seek like it: back into the region that the fresh replay r2 covers linearly
        let span = h1 + n3;
        if span > 0 {
            let p = g.rng.below(span);
            g.cmds.push(json!({"op":"seek","o":"c","t":"u64","p":p.to_string()}));
            let n = g.rng.below(span - p + 1);
            g.bytes("c", n, false);
            g.cmds.push(json!({"op":"pos","o":"c","t":"u128"}));
        }
    }
    if neighbours {
        while iy < py.len() {
            for y in ["y1", "y2"] {
                if bytelevel { g.bytes(y, py[iy], false) } else { g.blocks(y, py[iy], true, false) }
            }
            iy += 1;
        }
        // the same two instances again, alone
        // (again back to back with a same-IV construction under the other key, and with a same-key one)
        g.new_obj("w0", f, &kind, dir, 0, iv.clone(), json!({"rand":13}), "inner");
        g.new_obj("y1t", f, &kind, dir, 1, iv.clone(), json!({"rand":11}), "inner");
        g.new_obj("w1", f, &kind, dir, 1, iv2.clone(), json!({"rand":14}), "inner");
        g.new_obj("y2t", f, &kind, dir, 0, iv2.clone(), json!({"rand":12}), "inner");
        for &k in &py {
            for y in ["y1t", "y2t"] {
                if bytelevel { g.bytes(y, k, false) } else { g.blocks(y, k, true, false) }
            }
        }
    }
    if !seeked {
        // fresh replays of (h1 ; h2) and (h1 ; h3)
        g.new_obj("r1", f, &kind, dir, 0, iv.clone(), json!({"rand":0}), "inner");
        let unitb = if bytelevel { 1 } else if kind == "cfb8" { 1 } else { bs };
        g.new_obj("r2", f, &kind, dir, 0, iv, json!({"splice": {"rand":0}, "at": h1 * unitb, "then": {"rand":3}}), "inner");
        if bytelevel {
            g.sched_bytes("r1", h1 + n2, bs, Some(false), false);
            g.sched_bytes("r2", h1 + n3, bs, Some(false), false);
        } else {
            for k in g.composition(h1 + n2, w + 2, false) { g.blocks("r1", k, true, false); g.op("export", "r1"); }
            for k in g.composition(h1 + n3, w + 2, false) { g.blocks("r2", k, true, false); g.op("export", "r2"); }
        }
    } else {
        // after a seek the keystream map (position -> byte) must stay functional: linear reference
        g.new_obj("r1", f, &kind, dir, 0, iv, json!({"rand":0}), "inner");
        g.bytes("r1", 8 * bs, false);
    }
}

/// C17: Debug / algorithm name are constant per type; nothing of the chaining state survives a drop
fn gen_c17(g: &mut G) {
    let mut kinds: Vec<String> = BLOCK_KINDS.iter().map(|s| s.to_string()).collect();
    kinds.push("cfbbuf".into());
    for k in CTR_KINDS.iter().chain(["belt", "ofb"].iter()) {
        kinds.push(core_of(k));
        kinds.push(k.to_string());
    }
    let kind = g.strat(&kinds);
    // 8-byte windows need blocks of at least 8 bytes
    let f = loop {
        let f = g.pick_fac(&kind);
        if g.bs(f) >= 8 { break f; }
    };
    let (bs, w) = (g.bs(f), g.w(f));
    let ks = kind.ends_with("core") || ctr_bits(&kind).is_some() || kind == "ofb";
    let wrapper = ks && !kind.ends_with("core");
    let bytelevel = !kind.ends_with("core") && !is_block(&kind);
    for (j, key) in [0u64, 1].iter().enumerate() {
        let o = format!("o{j}");
        let dir = if ks { "ks" } else if g.rng.coin() { "enc" } else { "dec" };
        // special DATA and IVs too: all-zero input (then one half of a feedback state may be zero while the other
        // is not), IVs that are zero in one half, no data at all
        let ivlen = if kind == "ige" { 2 * bs } else { bs };
        let iv = match g.rng.below(6) {
            0 => json!({"bytes": vec![0u8; ivlen]}),
            1 => {
                let mut v = g.rng.bytes(ivlen);
                for b in v[ivlen / 2..].iter_mut() { *b = 0; }
                json!({"bytes": v})
            }
            2 => {
                let mut v = g.rng.bytes(ivlen);
                for b in v[..ivlen / 2].iter_mut() { *b = 0; }
                json!({"bytes": v})
            }
            _ => g.iv_for(&kind, j as u64),
        };
        let src = if g.rng.chance(1, 3) { json!({"zero": 1}) } else { json!({"rand": j}) };
        g.new_obj(&o, f, &kind, dir, *key, iv, src, "inner");
        if g.rng.chance(1, 8) {
            // never used
            g.op("debug", &o);
            g.op("drop", &o);
            continue;
        }
        g.op("debug", &o);
        // special states: the very end of the keystream (remaining = Some(0)), the last blocks, far positions
        if let Some(bits) = ctr_bits(&kind) {
            if g.rng.chance(1, 4) {
                // a far, high-entropy block position: the counter itself becomes a recognisable secret
                let r = ((g.rng.next() as u128) << 64 | g.rng.next() as u128) >> (128 - bits + 1);
                g.cmds.push(json!({"op":"setbpos","o":o,"v":r.to_string()}));
                // (byte-stream aliases stay block-aligned: mid-block Debug is the known finding)
                if bytelevel { g.bytes(&o, 2 * bs, false) } else { g.blocks(&o, 2, true, false) }
                g.op("debug", &o);
                g.op("drop", &o);
                continue;
            }
            if g.rng.chance(1, 2) {
                let k = *g.rng.pick(&[0i64, 0, 1, 2]);
                if kind.ends_with("core") || bits == 128 {
                    g.cmds.push(json!({"op":"setbpos","o":o,"v":{"end": -k}}));
                } else {
                    g.cmds.push(json!({"op":"seek","o":o,"t":"u128","p":{"end": -k * bs as i64}}));
                }
                g.op("debug", &o);
                g.op("rem", &o);
                g.op("drop", &o);
                continue;
            }
        }
        // the byte-stream aliases are probed only at block boundaries here (known finding C17 otherwise)
        if bytelevel {
            let n = if wrapper { bs * g.rng.range(0, 3) } else { g.nbytes(bs, 3) };
            g.bytes(&o, n, false);
        } else {
            let n = g.nblocks(w, 4);
            g.sched_blocks(&o, n, w, None, false);
        }
        g.op("debug", &o);
        g.op("drop", &o);
    }
}


/// Known finding C11: `try_seek(p)` with p div bs = 2^w - 1 and p mod bs != 0 is accepted by the
/// byte-level wrapper (dependency), the 32/64-bit counter wraps, and block 0's keystream is reused.
fn probe_c11(g: &mut G) {
    let kind = *g.rng.pick(&["ctr32be", "ctr32le", "ctr64be", "ctr64le"]);
    let f = g.pick_fac(kind);
    let bs = g.bs(f);
    g.new_obj("r", f, kind, "ks", 0, json!({"rand":0}), json!({"zero":1}), "inner");
    g.bytes("r", 2 * bs, false);
    g.new_obj("x", f, kind, "ks", 0, json!({"rand":0}), json!({"zero":1}), "inner");
    let off = g.rng.range(1, bs - 1) as i64;
    g.cmds.push(json!({"op":"seek","o":"x","t":"u128","p":{"end": off}}));
    g.cmds.push(json!({"op":"pos","o":"x","t":"u128"}));
    g.op("rem", "x");
    g.bytes("x", 2 * bs - 1, false);
    g.cmds.push(json!({"op":"pos","o":"x","t":"u128"}));
}

/// Known finding C17: Debug of the byte-stream aliases prints the unread keystream bytes (dependency).
fn probe_c17(g: &mut G) {
    let kind = g.stream_kind();
    let f = loop {
        let f = g.pick_fac(kind);
        if g.bs(f) >= 8 { break f; }
    };
    let bs = g.bs(f);
    for (j, key) in [0u64, 1].iter().enumerate() {
        let o = format!("o{j}");
        g.new_obj(&o, f, kind, "ks", *key, json!({"rand": j}), json!({"rand": j}), "inner");
        let n = g.rng.range(1, bs - 1);
        g.bytes(&o, n, false);
        g.op("debug", &o);
    }
}
