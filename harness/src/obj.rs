//! Dynamic (object-safe) interface to every public mode object of /repo, and thin generic wrappers
//! that drive the real public API. Nothing private is read.
use crate::cipher_impl::alg_name;
use cipher::{
    AlgorithmName, AsyncStreamCipher, BlockModeDecrypt, BlockModeEncrypt, BlockSizeUser,
    IvState, StreamCipher, StreamCipherCore, StreamCipherSeek, StreamCipherSeekCore,
    array::Array, block_padding::{AnsiX923, Iso10126, Iso7816, NoPadding, Pkcs7, ZeroPadding}, inout::InOutBuf, typenum::Unsigned,
};
use core::fmt::Debug;
use core::mem::MaybeUninit;

#[derive(Clone, Copy, PartialEq, Eq, Debug)]
pub enum Res {
    Ok,
    Err,
    Unsupported,
}

/// the padded one-shots carry the padding scheme in their name: "padded" (PKCS#7), "padded:iso10126", ...
pub fn is_padded(how: &str) -> bool {
    how == "padded" || how.starts_with("padded:")
}
/// run `$body` with the type alias `$P` bound to the padding scheme named by `$how`
macro_rules! pad_dispatch {
    ($how:expr, $P:ident, $body:expr) => {
        match $how {
            "padded:iso10126" => { type $P = Iso10126; $body }
            "padded:ansix923" => { type $P = AnsiX923; $body }
            "padded:iso7816" => { type $P = Iso7816; $body }
            "padded:zero" => { type $P = ZeroPadding; $body }
            "padded:none" => { type $P = NoPadding; $body }
            _ => { type $P = Pkcs7; $body }
        }
    };
}


/// A byte buffer that starts at a deliberately odd address: the data sits `off` bytes into its allocation
/// (off in 0..16, derived from the content), so that code which treats an aligned and an unaligned slice differently
/// (`align_to`, word-wise loops with a head and a tail) meets both.
pub struct MisVec {
    v: Vec<u8>,
    off: usize,
}
impl MisVec {
    pub fn from_slice(s: &[u8]) -> Self {
        let off = (s.len() * 7 + s.first().copied().unwrap_or(0) as usize) % 16;
        let mut v = vec![0x5Au8; off + s.len()];
        v[off..].copy_from_slice(s);
        MisVec { v, off }
    }
    /// the same with another offset (input buffers: the input and the output of a buffer-to-buffer call then sit at
    /// unrelated alignments)
    pub fn from_slice_in(s: &[u8]) -> Self {
        let off = (s.len() * 3 + 5) % 16;
        let mut v = vec![0xC3u8; off + s.len()];
        v[off..].copy_from_slice(s);
        MisVec { v, off }
    }
    pub fn resize(&mut self, n: usize, fill: u8) {
        self.v.resize(self.off + n, fill);
    }
    pub fn to_vec(&self) -> Vec<u8> {
        self.v[self.off..].to_vec()
    }
}
impl core::ops::Deref for MisVec {
    type Target = [u8];
    fn deref(&self) -> &[u8] {
        &self.v[self.off..]
    }
}
impl core::ops::DerefMut for MisVec {
    fn deref_mut(&mut self) -> &mut [u8] {
        &mut self.v[self.off..]
    }
}
impl From<MisVec> for Vec<u8> {
    fn from(m: MisVec) -> Vec<u8> {
        m.to_vec()
    }
}

pub struct IoOut {
    pub res: Res,
    /// content of the output buffer after the call (in place: the buffer itself)
    pub out: Vec<u8>,
    /// number of meaningful output bytes (padded ops); otherwise out.len()
    pub outlen: usize,
}

impl IoOut {
    pub fn unsupported() -> Self {
        IoOut {
            res: Res::Unsupported,
            out: vec![],
            outlen: 0,
        }
    }
    fn ok(out: impl Into<Vec<u8>>) -> Self {
        let out: Vec<u8> = out.into();
        let n = out.len();
        IoOut {
            res: Res::Ok,
            out,
            outlen: n,
        }
    }
    fn err(out: impl Into<Vec<u8>>) -> Self {
        let out: Vec<u8> = out.into();
        IoOut {
            res: Res::Err,
            out,
            outlen: 0,
        }
    }
}

pub struct DebugInfo {
    pub ty: String,
    pub text: String,
    pub alg: String,
}

#[allow(unused_variables)]
pub trait Obj {
    fn kind(&self) -> String;
    /// size in bytes of one call unit: block size for block-level objects (1 for cfb8), 1 for byte level
    fn unit(&self) -> usize;
    /// block-level call. `junk == None`: in place, else buffer-to-buffer into a buffer holding `junk`
    /// `inout`: use the `*_inout` entry points (a mode may override any provided method, so all are driven)
    fn blocks(&mut self, inp: &[u8], junk: Option<&[u8]>, multi: bool, inout: bool) -> IoOut {
        let inp_m = MisVec::from_slice_in(inp);
        let inp: &[u8] = &inp_m;
        IoOut::unsupported()
    }
    /// keystream written into a buffer (cores only): `write_keystream_block[s]`
    fn ksblocks(&mut self, n: usize, multi: bool) -> IoOut {
        IoOut::unsupported()
    }
    /// byte-level call
    fn bytes(&mut self, inp: &[u8], junk: Option<&[u8]>) -> IoOut {
        let inp_m = MisVec::from_slice_in(inp);
        let inp: &[u8] = &inp_m;
        IoOut::unsupported()
    }
    /// consuming one-shot call; op in {"async","cts","padded"}
    fn oneshot(self: Box<Self>, op: &str, inp: &[u8], junk: Option<&[u8]>, inout: bool) -> IoOut {
        let inp_m = MisVec::from_slice_in(inp);
        let inp: &[u8] = &inp_m;
        IoOut::unsupported()
    }
    fn seek(&mut self, t: &str, p: u128) -> Res {
        Res::Unsupported
    }
    /// None = unsupported; Some(None) = error; Some(Some(v))
    fn pos(&self, t: &str) -> Option<Option<u128>> {
        None
    }
    fn rem(&self) -> Option<Option<u128>> {
        None
    }
    fn bpos(&self) -> Option<u128> {
        None
    }
    fn set_bpos(&mut self, v: u128) -> Res {
        Res::Unsupported
    }
    /// exported state and (buffered CFB) byte position, -1 if none
    fn export(&self) -> Option<(Vec<u8>, i64)> {
        None
    }
    fn clone_box(&self) -> Option<Box<dyn Obj>> {
        None
    }
    /// `Clone::clone_from`: overwrite self with a copy of `src` (same concrete type); false if unsupported
    fn clone_from_obj(&mut self, src: &dyn Obj) -> bool {
        false
    }
    fn as_any(&self) -> &dyn core::any::Any;
    /// move `src` (same concrete type) into this object's storage: the old value is dropped IN PLACE and the new
    /// one lives at the very address the old one had (state keyed by an object's address must not survive that)
    fn replace_with(&mut self, src: Box<dyn Obj>) -> bool;
    fn debug(&self) -> Option<DebugInfo> {
        None
    }
    /// drop the object in place and return the bytes left in its storage
    fn drop_image(self: Box<Self>) -> Vec<u8>;
}

/// A caller-written keystream closure for `StreamCipherCore::process_with_backend` (a public entry point): it asks the
/// backend for ONE block first, then for whole parallel batches, then for a tail and a last single block - an order
/// the provided methods of the `cipher` crate never use (they always start with the batches).
struct MixKs<'a, BS: cipher::crypto_common::BlockSizes> {
    out: &'a mut [Array<u8, BS>],
}
impl<BS: cipher::crypto_common::BlockSizes> BlockSizeUser for MixKs<'_, BS> {
    type BlockSize = BS;
}
impl<BS: cipher::crypto_common::BlockSizes> cipher::StreamCipherClosure for MixKs<'_, BS> {
    fn call<B: cipher::StreamCipherBackend<BlockSize = BS>>(self, backend: &mut B) {
        let pw = B::ParBlocksSize::USIZE;
        let out = self.out;
        if out.is_empty() {
            return;
        }
        if pw <= 1 {
            for b in out.iter_mut() {
                backend.gen_ks_block(b);
            }
            return;
        }
        let (first, rest) = out.split_at_mut(1);
        backend.gen_ks_block(&mut first[0]);
        let mut i = 0;
        while rest.len() - i >= pw {
            let mut t: cipher::ParBlocks<B> = Default::default();
            backend.gen_par_ks_blocks(&mut t);
            for (k, b) in t.iter().enumerate() {
                rest[i + k] = b.clone();
            }
            i += pw;
        }
        let tail = &mut rest[i..];
        let n = tail.len();
        if n > 1 {
            let (a, b) = tail.split_at_mut(n - 1);
            backend.gen_tail_blocks(a);
            backend.gen_ks_block(&mut b[0]);
        } else if n == 1 {
            backend.gen_ks_block(&mut tail[0]);
        }
    }
}

fn replace_impl<T: Obj + 'static>(dst: &mut T, src: Box<dyn Obj>) -> bool {
    if src.as_any().type_id() != core::any::TypeId::of::<T>() {
        return false;
    }
    // same concrete type: the fat pointer's data pointer is a `*mut T`
    let b: Box<T> = unsafe { Box::from_raw(Box::into_raw(src) as *mut T) };
    *dst = *b;
    true
}

fn image_after_drop<T>(v: T) -> Vec<u8> {
    let mut slot = MaybeUninit::new(v);
    let n = core::mem::size_of::<T>();
    unsafe {
        core::ptr::drop_in_place(slot.as_mut_ptr());
        let p = slot.as_ptr() as *const u8;
        (0..n).map(|i| core::ptr::read_volatile(p.add(i))).collect()
    }
}

/// a Debug impl can branch on the formatter's flags: plain, pretty (`dbg!`), hex, sign, width/precision
fn dbg_text<T: Debug>(v: &T) -> String {
    format!("{:?}\n--\n{:#?}\n--\n{:x?}\n--\n{:+?}\n--\n{:012.3?}\n--\n{:<#20X?}", v, v, v, v, v, v)
}

fn dbg_info<T: Debug + AlgorithmName>(v: &T) -> DebugInfo {
    DebugInfo {
        ty: core::any::type_name::<T>().to_string(),
        // a Debug impl can branch on the formatter's flags: plain, pretty (`dbg!`), hex, sign, width/precision
        text: dbg_text(v),
        alg: alg_name::<T>(),
    }
}

// ------------------------------------------------------------------------------------------------
// block-level encryptors / decryptors
// ------------------------------------------------------------------------------------------------

pub trait ModeInfo: Sized + Clone + Debug + AlgorithmName {
    const KIND: &'static str;
    fn export_state(&self) -> Vec<u8>;
}
pub trait EncMode: BlockModeEncrypt + ModeInfo {
    fn async_enc(self, _buf: InOutBuf<'_, '_, u8>) -> bool {
        false
    }
    /// `AsyncStreamCipher::encrypt` (in place); false = not an AsyncStreamCipher
    fn async_enc_inplace(self, _buf: &mut [u8]) -> bool {
        false
    }
    /// `AsyncStreamCipher::encrypt_b2b`; None = not an AsyncStreamCipher, Some(false) = NotEqualError
    fn async_enc_b2b(self, _i: &[u8], _o: &mut [u8]) -> Option<bool> {
        None
    }
}
pub trait DecMode: BlockModeDecrypt + ModeInfo {
    fn async_dec(self, _buf: InOutBuf<'_, '_, u8>) -> bool {
        false
    }
    fn async_dec_inplace(self, _buf: &mut [u8]) -> bool {
        false
    }
    fn async_dec_b2b(self, _i: &[u8], _o: &mut [u8]) -> Option<bool> {
        None
    }
}

pub struct BlkEnc<M>(pub M);
pub struct BlkDec<M>(pub M);

fn as_blocks<BS: cipher::array::ArraySize>(b: &[u8]) -> &[Array<u8, BS>] {
    let (blocks, tail) = Array::<u8, BS>::slice_as_chunks(b);
    assert!(tail.is_empty(), "harness: block-level data must be whole blocks");
    blocks
}
fn as_blocks_mut<BS: cipher::array::ArraySize>(b: &mut [u8]) -> &mut [Array<u8, BS>] {
    let (blocks, tail) = Array::<u8, BS>::slice_as_chunks_mut(b);
    assert!(tail.is_empty(), "harness: block-level data must be whole blocks");
    blocks
}

impl<M: EncMode + 'static> Obj for BlkEnc<M> {
    fn kind(&self) -> String {
        M::KIND.to_string()
    }
    fn unit(&self) -> usize {
        M::BlockSize::USIZE
    }
    fn blocks(&mut self, inp: &[u8], junk: Option<&[u8]>, multi: bool, inout: bool) -> IoOut {
        let inp_m = MisVec::from_slice_in(inp);
        let inp: &[u8] = &inp_m;
        match junk {
            None => {
                let mut buf = MisVec::from_slice(inp);
                {
                    let bl = as_blocks_mut::<M::BlockSize>(&mut buf);
                    match (multi, inout) {
                        (true, false) => self.0.encrypt_blocks(bl),
                        (true, true) => self.0.encrypt_blocks_inout(bl.into()),
                        (false, false) => {
                            for b in bl.iter_mut() {
                                self.0.encrypt_block(b);
                            }
                        }
                        (false, true) => {
                            for b in bl.iter_mut() {
                                self.0.encrypt_block_inout(b.into());
                            }
                        }
                    }
                }
                IoOut::ok(buf)
            }
            Some(j) => {
                let mut out = MisVec::from_slice(j);
                let ib = as_blocks::<M::BlockSize>(inp);
                if multi {
                    let ob = as_blocks_mut::<M::BlockSize>(&mut out);
                    if inout && ib.len() == ob.len() {
                        self.0.encrypt_blocks_inout(InOutBuf::new(ib, ob).unwrap());
                        return IoOut::ok(out);
                    }
                    match self.0.encrypt_blocks_b2b(ib, ob) {
                        Ok(()) => IoOut::ok(out),
                        Err(_) => IoOut::err(out),
                    }
                } else {
                    assert_eq!(inp.len(), out.len());
                    let ob = as_blocks_mut::<M::BlockSize>(&mut out);
                    for (i, o) in ib.iter().zip(ob.iter_mut()) {
                        if inout {
                            self.0.encrypt_block_inout((i, o).into());
                        } else {
                            self.0.encrypt_block_b2b(i, o);
                        }
                    }
                    IoOut::ok(out)
                }
            }
        }
    }
    fn oneshot(self: Box<Self>, op: &str, inp: &[u8], junk: Option<&[u8]>, inout: bool) -> IoOut {
        let inp_m = MisVec::from_slice_in(inp);
        let inp: &[u8] = &inp_m;
        let m = self.0;
        match (op, junk) {
            ("async", None) if !inout => {
                let mut buf = MisVec::from_slice(inp);
                if m.async_enc_inplace(&mut buf) {
                    IoOut::ok(buf)
                } else {
                    IoOut::unsupported()
                }
            }
            ("async", Some(j)) if !inout => {
                let mut out = MisVec::from_slice(j);
                match m.async_enc_b2b(inp, &mut out) {
                    Some(true) => IoOut::ok(out),
                    Some(false) => IoOut::err(out),
                    None => IoOut::unsupported(),
                }
            }
            ("async", None) => {
                let mut buf = MisVec::from_slice(inp);
                if m.async_enc((&mut buf[..]).into()) {
                    IoOut::ok(buf)
                } else {
                    IoOut::unsupported()
                }
            }
            ("async", Some(j)) => {
                let mut out = MisVec::from_slice(j);
                // `encrypt_b2b` is `InOutBuf::new(in, out).map(|b| self.encrypt_inout(b))`
                let r = match InOutBuf::new(inp, &mut out[..]) {
                    Ok(b) => Some(m.async_enc(b)),
                    Err(_) => None,
                };
                match r {
                    Some(true) => IoOut::ok(out),
                    Some(false) => IoOut::unsupported(),
                    None => IoOut::err(out),
                }
            }
            (h, None) if is_padded(h) => {
                // in place: buffer = message followed by room for the padding
                let bs = M::BlockSize::USIZE;
                let mut buf = MisVec::from_slice(inp);
                buf.resize(bs * (inp.len() / bs + 1), 0xA5);
                let r = pad_dispatch!(h, P, m.encrypt_padded::<P>(&mut buf, inp.len()).map(|s| s.len()).ok());
                match r {
                    Some(n) => IoOut {
                        res: Res::Ok,
                        out: buf.to_vec(),
                        outlen: n,
                    },
                    None => IoOut::err(buf),
                }
            }
            (h, Some(j))
                if is_padded(h)
                    && inout
                    && j.len() >= M::BlockSize::USIZE * (inp.len() / M::BlockSize::USIZE + 1)
                    && (h != "padded:none" || inp.len() % M::BlockSize::USIZE == 0) =>
            {
                // the allocating variant (it `expect`s success, so it is only used when there is room and - for
                // NoPadding - the message is aligned)
                let v = pad_dispatch!(h, P, m.encrypt_padded_vec::<P>(inp));
                let n = v.len();
                let mut out = MisVec::from_slice(j);
                out[..n].copy_from_slice(&v);
                IoOut {
                    res: Res::Ok,
                    out: out.to_vec(),
                    outlen: n,
                }
            }
            (h, Some(j)) if is_padded(h) => {
                let mut out = MisVec::from_slice(j);
                let r = pad_dispatch!(h, P, m.encrypt_padded_b2b::<P>(inp, &mut out).map(|s| s.len()).ok());
                match r {
                    Some(n) => IoOut {
                        res: Res::Ok,
                        out: out.to_vec(),
                        outlen: n,
                    },
                    None => IoOut::err(out),
                }
            }
            _ => IoOut::unsupported(),
        }
    }
    fn export(&self) -> Option<(Vec<u8>, i64)> {
        Some((self.0.export_state(), -1))
    }
    fn clone_box(&self) -> Option<Box<dyn Obj>> {
        Some(Box::new(BlkEnc(self.0.clone())))
    }
    fn debug(&self) -> Option<DebugInfo> {
        Some(dbg_info(&self.0))
    }
    fn as_any(&self) -> &dyn core::any::Any {
        self
    }
    fn replace_with(&mut self, src: Box<dyn Obj>) -> bool {
        replace_impl(self, src)
    }
    fn clone_from_obj(&mut self, src: &dyn Obj) -> bool {
        match src.as_any().downcast_ref::<Self>() {
            Some(s) => {
                self.0.clone_from(&s.0);
                true
            }
            None => false,
        }
    }
    fn drop_image(self: Box<Self>) -> Vec<u8> {
        image_after_drop(self.0)
    }
}

impl<M: DecMode + 'static> Obj for BlkDec<M> {
    fn kind(&self) -> String {
        M::KIND.to_string()
    }
    fn unit(&self) -> usize {
        M::BlockSize::USIZE
    }
    fn blocks(&mut self, inp: &[u8], junk: Option<&[u8]>, multi: bool, inout: bool) -> IoOut {
        let inp_m = MisVec::from_slice_in(inp);
        let inp: &[u8] = &inp_m;
        match junk {
            None => {
                let mut buf = MisVec::from_slice(inp);
                {
                    let bl = as_blocks_mut::<M::BlockSize>(&mut buf);
                    match (multi, inout) {
                        (true, false) => self.0.decrypt_blocks(bl),
                        (true, true) => self.0.decrypt_blocks_inout(bl.into()),
                        (false, false) => {
                            for b in bl.iter_mut() {
                                self.0.decrypt_block(b);
                            }
                        }
                        (false, true) => {
                            for b in bl.iter_mut() {
                                self.0.decrypt_block_inout(b.into());
                            }
                        }
                    }
                }
                IoOut::ok(buf)
            }
            Some(j) => {
                let mut out = MisVec::from_slice(j);
                let ib = as_blocks::<M::BlockSize>(inp);
                if multi {
                    let ob = as_blocks_mut::<M::BlockSize>(&mut out);
                    if inout && ib.len() == ob.len() {
                        self.0.decrypt_blocks_inout(InOutBuf::new(ib, ob).unwrap());
                        return IoOut::ok(out);
                    }
                    match self.0.decrypt_blocks_b2b(ib, ob) {
                        Ok(()) => IoOut::ok(out),
                        Err(_) => IoOut::err(out),
                    }
                } else {
                    assert_eq!(inp.len(), out.len());
                    let ob = as_blocks_mut::<M::BlockSize>(&mut out);
                    for (i, o) in ib.iter().zip(ob.iter_mut()) {
                        if inout {
                            self.0.decrypt_block_inout((i, o).into());
                        } else {
                            self.0.decrypt_block_b2b(i, o);
                        }
                    }
                    IoOut::ok(out)
                }
            }
        }
    }
    fn oneshot(self: Box<Self>, op: &str, inp: &[u8], junk: Option<&[u8]>, inout: bool) -> IoOut {
        let inp_m = MisVec::from_slice_in(inp);
        let inp: &[u8] = &inp_m;
        let m = self.0;
        match (op, junk) {
            ("async", None) if !inout => {
                let mut buf = MisVec::from_slice(inp);
                if m.async_dec_inplace(&mut buf) {
                    IoOut::ok(buf)
                } else {
                    IoOut::unsupported()
                }
            }
            ("async", Some(j)) if !inout => {
                let mut out = MisVec::from_slice(j);
                match m.async_dec_b2b(inp, &mut out) {
                    Some(true) => IoOut::ok(out),
                    Some(false) => IoOut::err(out),
                    None => IoOut::unsupported(),
                }
            }
            ("async", None) => {
                let mut buf = MisVec::from_slice(inp);
                if m.async_dec((&mut buf[..]).into()) {
                    IoOut::ok(buf)
                } else {
                    IoOut::unsupported()
                }
            }
            ("async", Some(j)) => {
                let mut out = MisVec::from_slice(j);
                // `decrypt_b2b` is `InOutBuf::new(in, out).map(|b| self.decrypt_inout(b))`
                let r = match InOutBuf::new(inp, &mut out[..]) {
                    Ok(b) => Some(m.async_dec(b)),
                    Err(_) => None,
                };
                match r {
                    Some(true) => IoOut::ok(out),
                    Some(false) => IoOut::unsupported(),
                    None => IoOut::err(out),
                }
            }
            (h, None) if is_padded(h) => {
                let mut buf = MisVec::from_slice(inp);
                let r = pad_dispatch!(h, P, m.decrypt_padded::<P>(&mut buf).map(|s| s.len()).ok());
                match r {
                    Some(n) => IoOut {
                        res: Res::Ok,
                        out: buf.to_vec(),
                        outlen: n,
                    },
                    None => IoOut::err(buf),
                }
            }
            (h, Some(j)) if is_padded(h) && inout && j.len() >= inp.len() => {
                let mut out = MisVec::from_slice(j);
                match pad_dispatch!(h, P, m.decrypt_padded_vec::<P>(inp)) {
                    Ok(v) => {
                        let n = v.len();
                        out[..n].copy_from_slice(&v);
                        IoOut {
                            res: Res::Ok,
                            out: out.to_vec(),
                            outlen: n,
                        }
                    }
                    Err(_) => IoOut::err(out),
                }
            }
            (h, Some(j)) if is_padded(h) => {
                let mut out = MisVec::from_slice(j);
                let r = pad_dispatch!(h, P, m.decrypt_padded_b2b::<P>(inp, &mut out).map(|s| s.len()).ok());
                match r {
                    Some(n) => IoOut {
                        res: Res::Ok,
                        out: out.to_vec(),
                        outlen: n,
                    },
                    None => IoOut::err(out),
                }
            }
            _ => IoOut::unsupported(),
        }
    }
    fn export(&self) -> Option<(Vec<u8>, i64)> {
        Some((self.0.export_state(), -1))
    }
    fn clone_box(&self) -> Option<Box<dyn Obj>> {
        Some(Box::new(BlkDec(self.0.clone())))
    }
    fn debug(&self) -> Option<DebugInfo> {
        Some(dbg_info(&self.0))
    }
    fn as_any(&self) -> &dyn core::any::Any {
        self
    }
    fn replace_with(&mut self, src: Box<dyn Obj>) -> bool {
        replace_impl(self, src)
    }
    fn clone_from_obj(&mut self, src: &dyn Obj) -> bool {
        match src.as_any().downcast_ref::<Self>() {
            Some(s) => {
                self.0.clone_from(&s.0);
                true
            }
            None => false,
        }
    }
    fn drop_image(self: Box<Self>) -> Vec<u8> {
        image_after_drop(self.0)
    }
}

// ------------------------------------------------------------------------------------------------
// per-type glue
// ------------------------------------------------------------------------------------------------

use cipher::{BlockCipherDecrypt, BlockCipherEncrypt, array::ArraySize, typenum::Sum};
use core::ops::Add;

pub trait Ciph: BlockCipherEncrypt + BlockCipherDecrypt + Clone + AlgorithmName + 'static {}
impl<T: BlockCipherEncrypt + BlockCipherDecrypt + Clone + AlgorithmName + 'static> Ciph for T {}

macro_rules! mode_info {
    ($ty:ty, $kind:expr) => {
        impl<C: Ciph> ModeInfo for $ty {
            const KIND: &'static str = $kind;
            fn export_state(&self) -> Vec<u8> {
                self.iv_state().to_vec()
            }
        }
    };
}
mode_info!(cbc::Encryptor<C>, "cbc");
mode_info!(cbc::Decryptor<C>, "cbc");
mode_info!(pcbc::Encryptor<C>, "pcbc");
mode_info!(pcbc::Decryptor<C>, "pcbc");
mode_info!(cfb_mode::Encryptor<C>, "cfb");
mode_info!(cfb_mode::Decryptor<C>, "cfb");
mode_info!(cfb8::Encryptor<C>, "cfb8");
mode_info!(cfb8::Decryptor<C>, "cfb8");
mode_info!(ofb::OfbCore<C>, "ofbblk");

impl<C: Ciph> ModeInfo for ige::Encryptor<C>
where
    C::BlockSize: Add,
    Sum<C::BlockSize, C::BlockSize>: ArraySize,
{
    const KIND: &'static str = "ige";
    fn export_state(&self) -> Vec<u8> {
        self.iv_state().to_vec()
    }
}
impl<C: Ciph> ModeInfo for ige::Decryptor<C>
where
    C::BlockSize: Add,
    Sum<C::BlockSize, C::BlockSize>: ArraySize,
{
    const KIND: &'static str = "ige";
    fn export_state(&self) -> Vec<u8> {
        self.iv_state().to_vec()
    }
}
impl<C: Ciph> EncMode for ige::Encryptor<C>
where
    C::BlockSize: Add,
    Sum<C::BlockSize, C::BlockSize>: ArraySize,
{
}
impl<C: Ciph> DecMode for ige::Decryptor<C>
where
    C::BlockSize: Add,
    Sum<C::BlockSize, C::BlockSize>: ArraySize,
{
}

impl<C: Ciph> EncMode for cbc::Encryptor<C> {}
impl<C: Ciph> DecMode for cbc::Decryptor<C> {}
impl<C: Ciph> EncMode for pcbc::Encryptor<C> {}
impl<C: Ciph> DecMode for pcbc::Decryptor<C> {}
impl<C: Ciph> EncMode for ofb::OfbCore<C> {}
impl<C: Ciph> DecMode for ofb::OfbCore<C> {}
impl<C: Ciph> EncMode for cfb_mode::Encryptor<C> {
    fn async_enc(self, buf: InOutBuf<'_, '_, u8>) -> bool {
        self.encrypt_inout(buf);
        true
    }
    fn async_enc_inplace(self, buf: &mut [u8]) -> bool {
        AsyncStreamCipher::encrypt(self, buf);
        true
    }
    fn async_enc_b2b(self, i: &[u8], o: &mut [u8]) -> Option<bool> {
        Some(AsyncStreamCipher::encrypt_b2b(self, i, o).is_ok())
    }
}
impl<C: Ciph> DecMode for cfb_mode::Decryptor<C> {
    fn async_dec(self, buf: InOutBuf<'_, '_, u8>) -> bool {
        self.decrypt_inout(buf);
        true
    }
    fn async_dec_inplace(self, buf: &mut [u8]) -> bool {
        AsyncStreamCipher::decrypt(self, buf);
        true
    }
    fn async_dec_b2b(self, i: &[u8], o: &mut [u8]) -> Option<bool> {
        Some(AsyncStreamCipher::decrypt_b2b(self, i, o).is_ok())
    }
}
impl<C: Ciph> EncMode for cfb8::Encryptor<C> {
    fn async_enc(self, buf: InOutBuf<'_, '_, u8>) -> bool {
        self.encrypt_inout(buf);
        true
    }
    fn async_enc_inplace(self, buf: &mut [u8]) -> bool {
        AsyncStreamCipher::encrypt(self, buf);
        true
    }
    fn async_enc_b2b(self, i: &[u8], o: &mut [u8]) -> Option<bool> {
        Some(AsyncStreamCipher::encrypt_b2b(self, i, o).is_ok())
    }
}
impl<C: Ciph> DecMode for cfb8::Decryptor<C> {
    fn async_dec(self, buf: InOutBuf<'_, '_, u8>) -> bool {
        self.decrypt_inout(buf);
        true
    }
    fn async_dec_inplace(self, buf: &mut [u8]) -> bool {
        AsyncStreamCipher::decrypt(self, buf);
        true
    }
    fn async_dec_b2b(self, i: &[u8], o: &mut [u8]) -> Option<bool> {
        Some(AsyncStreamCipher::decrypt_b2b(self, i, o).is_ok())
    }
}

// ------------------------------------------------------------------------------------------------
// byte-level stream ciphers (StreamCipherCoreWrapper aliases) and their cores
// ------------------------------------------------------------------------------------------------

pub trait CoreInfo: StreamCipherCore + Sized + Debug + AlgorithmName {
    fn try_clone(&self) -> Option<Self> {
        None
    }
    fn try_clone_from(&mut self, _src: &Self) -> bool {
        false
    }
    const KIND: &'static str; // e.g. "ctr32be", "ofb", "belt"
    fn export_state(&self) -> Vec<u8>;
    fn get_bpos(&self) -> Option<u128> {
        None
    }
    fn set_bpos_u128(&mut self, _v: u128) -> Res {
        Res::Unsupported
    }
}

/// Seeking through the byte-level wrapper; `None` when the type does not implement `StreamCipherSeek`.
pub trait SeekGlue: Sized {
    fn clone_wrapper(&self) -> Option<Self> {
        None
    }
    fn clone_from_wrapper(&mut self, _src: &Self) -> bool {
        false
    }
    fn do_seek(&mut self, _t: &str, _p: u128) -> Res {
        Res::Unsupported
    }
    fn do_pos(&self, _t: &str) -> Option<Option<u128>> {
        None
    }
}

pub fn seek_generic<S: StreamCipherSeek>(s: &mut S, t: &str, p: u128) -> Res {
    let r = match t {
        "i32" => s.try_seek(i32::try_from(p).expect("harness: seek target must fit i32")),
        "u32" => s.try_seek(u32::try_from(p).expect("harness: seek target must fit u32")),
        "u64" => s.try_seek(u64::try_from(p).expect("harness: seek target must fit u64")),
        "usize" => s.try_seek(usize::try_from(p).expect("harness: seek target must fit usize")),
        "u128" => s.try_seek(p),
        _ => panic!("harness: bad seek type"),
    };
    if r.is_ok() { Res::Ok } else { Res::Err }
}
pub fn pos_generic<S: StreamCipherSeek>(s: &S, t: &str) -> Option<Option<u128>> {
    Some(match t {
        // a negative i32 cannot be a position; report it as an (impossible) huge value so that the
        // model's comparison fails rather than the harness hiding it
        "i32" => s.try_current_pos::<i32>().ok().map(|v| if v < 0 { u128::MAX } else { v as u128 }),
        "u32" => s.try_current_pos::<u32>().ok().map(|v| v as u128),
        "u64" => s.try_current_pos::<u64>().ok().map(|v| v as u128),
        "usize" => s.try_current_pos::<usize>().ok().map(|v| v as u128),
        "u128" => s.try_current_pos::<u128>().ok(),
        _ => panic!("harness: bad pos type"),
    })
}

pub struct Strm<K: CoreInfo>(pub cipher::StreamCipherCoreWrapper<K>)
where
    cipher::StreamCipherCoreWrapper<K>: SeekGlue;

impl<K: CoreInfo + 'static> Obj for Strm<K>
where
    cipher::StreamCipherCoreWrapper<K>: SeekGlue,
{
    fn kind(&self) -> String {
        K::KIND.to_string()
    }
    fn unit(&self) -> usize {
        1
    }
    fn bytes(&mut self, inp: &[u8], junk: Option<&[u8]>) -> IoOut {
        let inp_m = MisVec::from_slice_in(inp);
        let inp: &[u8] = &inp_m;
        match junk {
            None => {
                let mut buf = MisVec::from_slice(inp);
                match self.0.try_apply_keystream(&mut buf) {
                    Ok(()) => IoOut::ok(buf),
                    Err(_) => IoOut::err(buf),
                }
            }
            Some(j) => {
                let mut out = MisVec::from_slice(j);
                match self.0.apply_keystream_b2b(inp, &mut out) {
                    Ok(()) => IoOut::ok(out),
                    Err(_) => IoOut::err(out),
                }
            }
        }
    }
    fn seek(&mut self, t: &str, p: u128) -> Res {
        self.0.do_seek(t, p)
    }
    fn pos(&self, t: &str) -> Option<Option<u128>> {
        self.0.do_pos(t)
    }
    fn rem(&self) -> Option<Option<u128>> {
        Some(self.0.get_core().remaining_blocks().map(|v| v as u128))
    }
    fn bpos(&self) -> Option<u128> {
        self.0.get_core().get_bpos()
    }
    fn export(&self) -> Option<(Vec<u8>, i64)> {
        Some((self.0.get_core().export_state(), -1))
    }
    fn clone_box(&self) -> Option<Box<dyn Obj>> {
        let core = self.0.get_core().try_clone()?;
        // the wrapper is Clone iff the core is; go through the wrapper's own Clone
        let _ = core;
        self.0.clone_wrapper().map(|w| Box::new(Strm(w)) as Box<dyn Obj>)
    }
    fn debug(&self) -> Option<DebugInfo> {
        Some(DebugInfo {
            ty: core::any::type_name::<cipher::StreamCipherCoreWrapper<K>>().to_string(),
            text: dbg_text(&self.0),
            alg: alg_name::<K>(),
        })
    }
    fn clone_from_obj(&mut self, src: &dyn Obj) -> bool {
        match src.as_any().downcast_ref::<Self>() {
            Some(s) => self.0.clone_from_wrapper(&s.0),
            None => false,
        }
    }
    fn as_any(&self) -> &dyn core::any::Any {
        self
    }
    fn replace_with(&mut self, src: Box<dyn Obj>) -> bool {
        replace_impl(self, src)
    }
    fn drop_image(self: Box<Self>) -> Vec<u8> {
        image_after_drop(self.0)
    }
}

/// Block-level keystream core (`CtrCore`, `BeltCtrCore`, `OfbCore` as `StreamCipherCore`).
pub struct CoreObj<K: CoreInfo>(pub K);

impl<K: CoreInfo + 'static> Obj for CoreObj<K> {
    fn kind(&self) -> String {
        format!("{}core", K::KIND)
    }
    fn unit(&self) -> usize {
        K::BlockSize::USIZE
    }
    fn blocks(&mut self, inp: &[u8], junk: Option<&[u8]>, multi: bool, inout: bool) -> IoOut {
        let inp_m = MisVec::from_slice_in(inp);
        let inp: &[u8] = &inp_m;
        match junk {
            None => {
                let mut buf = MisVec::from_slice(inp);
                {
                    let bl = as_blocks_mut::<K::BlockSize>(&mut buf);
                    if multi && inout {
                        self.0.apply_keystream_blocks_inout(bl.into());
                    } else if multi {
                        self.0.apply_keystream_blocks(bl);
                    } else {
                        for b in bl.iter_mut() {
                            self.0.apply_keystream_block_inout(b.into());
                        }
                    }
                }
                IoOut::ok(buf)
            }
            Some(j) => {
                let mut out = MisVec::from_slice(j);
                assert_eq!(inp.len(), out.len());
                let ib = as_blocks::<K::BlockSize>(inp);
                let ob = as_blocks_mut::<K::BlockSize>(&mut out);
                if multi {
                    let b = InOutBuf::new(ib, ob).unwrap();
                    self.0.apply_keystream_blocks_inout(b);
                } else {
                    for (i, o) in ib.iter().zip(ob.iter_mut()) {
                        self.0.apply_keystream_block_inout((i, o).into());
                    }
                }
                IoOut::ok(out)
            }
        }
    }
    fn ksblocks(&mut self, n: usize, multi: bool) -> IoOut {
        let mut out = vec![0xC3u8; n * K::BlockSize::USIZE];
        {
            let ob = as_blocks_mut::<K::BlockSize>(&mut out);
            if multi && n >= 3 && n % 2 == 1 {
                // (odd multi-block requests go through a caller-written closure: single, batches, tail, single)
                self.0.process_with_backend(MixKs { out: ob });
            } else if multi {
                self.0.write_keystream_blocks(ob);
            } else {
                for b in ob.iter_mut() {
                    self.0.write_keystream_block(b);
                }
            }
        }
        IoOut::ok(out)
    }
    fn rem(&self) -> Option<Option<u128>> {
        Some(self.0.remaining_blocks().map(|v| v as u128))
    }
    fn bpos(&self) -> Option<u128> {
        self.0.get_bpos()
    }
    fn set_bpos(&mut self, v: u128) -> Res {
        self.0.set_bpos_u128(v)
    }
    fn export(&self) -> Option<(Vec<u8>, i64)> {
        Some((self.0.export_state(), -1))
    }
    fn clone_box(&self) -> Option<Box<dyn Obj>> {
        self.0.try_clone().map(|k| Box::new(CoreObj(k)) as Box<dyn Obj>)
    }
    fn debug(&self) -> Option<DebugInfo> {
        Some(dbg_info(&self.0))
    }
    fn clone_from_obj(&mut self, src: &dyn Obj) -> bool {
        match src.as_any().downcast_ref::<Self>() {
            Some(s) => self.0.try_clone_from(&s.0),
            None => false,
        }
    }
    fn as_any(&self) -> &dyn core::any::Any {
        self
    }
    fn replace_with(&mut self, src: Box<dyn Obj>) -> bool {
        replace_impl(self, src)
    }
    fn drop_image(self: Box<Self>) -> Vec<u8> {
        image_after_drop(self.0)
    }
}

macro_rules! ctr_core_info {
    ($flavor:ty, $kind:expr, $cnt:ty) => {
        impl<C: Ciph> CoreInfo for ctr::CtrCore<C, $flavor>
        where
            $flavor: ctr::CtrFlavor<C::BlockSize, Backend = $cnt>,
        {
            const KIND: &'static str = $kind;
            fn try_clone(&self) -> Option<Self> {
                Some(self.clone())
            }
            fn try_clone_from(&mut self, src: &Self) -> bool {
                self.clone_from(src);
                true
            }
            fn export_state(&self) -> Vec<u8> {
                self.iv_state().to_vec()
            }
            fn get_bpos(&self) -> Option<u128> {
                Some(self.get_block_pos() as u128)
            }
            fn set_bpos_u128(&mut self, v: u128) -> Res {
                self.set_block_pos(<$cnt>::try_from(v).expect("harness: block pos must fit counter"));
                Res::Ok
            }
        }
        impl<C: Ciph> SeekGlue for cipher::StreamCipherCoreWrapper<ctr::CtrCore<C, $flavor>>
        where
            $flavor: ctr::CtrFlavor<C::BlockSize, Backend = $cnt>,
        {
            fn clone_wrapper(&self) -> Option<Self> {
                Some(self.clone())
            }
            fn clone_from_wrapper(&mut self, src: &Self) -> bool {
                self.clone_from(src);
                true
            }
            fn do_seek(&mut self, t: &str, p: u128) -> Res {
                seek_generic(self, t, p)
            }
            fn do_pos(&self, t: &str) -> Option<Option<u128>> {
                pos_generic(self, t)
            }
        }
    };
}
ctr_core_info!(ctr::flavors::Ctr32BE, "ctr32be", u32);
ctr_core_info!(ctr::flavors::Ctr32LE, "ctr32le", u32);
ctr_core_info!(ctr::flavors::Ctr64BE, "ctr64be", u64);
ctr_core_info!(ctr::flavors::Ctr64LE, "ctr64le", u64);
ctr_core_info!(ctr::flavors::Ctr128BE, "ctr128be", u128);
ctr_core_info!(ctr::flavors::Ctr128LE, "ctr128le", u128);

impl<C: Ciph + BlockSizeUser<BlockSize = cipher::consts::U16>> CoreInfo for belt_ctr::BeltCtrCore<C> {
    const KIND: &'static str = "belt";
    fn export_state(&self) -> Vec<u8> {
        self.iv_state().to_vec()
    }
    fn get_bpos(&self) -> Option<u128> {
        Some(self.get_block_pos())
    }
    fn set_bpos_u128(&mut self, v: u128) -> Res {
        self.set_block_pos(v);
        Res::Ok
    }
}
impl<C: Ciph + BlockSizeUser<BlockSize = cipher::consts::U16>> SeekGlue
    for cipher::StreamCipherCoreWrapper<belt_ctr::BeltCtrCore<C>>
{
    fn do_seek(&mut self, t: &str, p: u128) -> Res {
        seek_generic(self, t, p)
    }
    fn do_pos(&self, t: &str) -> Option<Option<u128>> {
        pos_generic(self, t)
    }
}
impl<C: Ciph> CoreInfo for ofb::OfbCore<C> {
    const KIND: &'static str = "ofb";
    fn try_clone(&self) -> Option<Self> {
        Some(self.clone())
    }
    fn try_clone_from(&mut self, src: &Self) -> bool {
        self.clone_from(src);
        true
    }
    fn export_state(&self) -> Vec<u8> {
        self.iv_state().to_vec()
    }
}
impl<C: Ciph> SeekGlue for cipher::StreamCipherCoreWrapper<ofb::OfbCore<C>> {
    fn clone_wrapper(&self) -> Option<Self> {
        Some(self.clone())
    }
    fn clone_from_wrapper(&mut self, src: &Self) -> bool {
        self.clone_from(src);
        true
    }
}

// ------------------------------------------------------------------------------------------------
// buffered CFB
// ------------------------------------------------------------------------------------------------

pub struct BufE<C: Ciph>(pub cfb_mode::BufEncryptor<C>);
pub struct BufD<C: Ciph>(pub cfb_mode::BufDecryptor<C>);

impl<C: Ciph> Obj for BufE<C> {
    fn kind(&self) -> String {
        "cfbbuf".into()
    }
    fn unit(&self) -> usize {
        1
    }
    fn bytes(&mut self, inp: &[u8], junk: Option<&[u8]>) -> IoOut {
        let inp_m = MisVec::from_slice_in(inp);
        let inp: &[u8] = &inp_m;
        if junk.is_some() {
            return IoOut::unsupported();
        }
        let mut buf = MisVec::from_slice(inp);
        self.0.encrypt(&mut buf);
        IoOut::ok(buf)
    }
    fn export(&self) -> Option<(Vec<u8>, i64)> {
        let (b, p) = self.0.get_state();
        Some((b.to_vec(), p as i64))
    }
    fn clone_box(&self) -> Option<Box<dyn Obj>> {
        Some(Box::new(BufE(self.0.clone())))
    }
    fn debug(&self) -> Option<DebugInfo> {
        Some(dbg_info(&self.0))
    }
    fn as_any(&self) -> &dyn core::any::Any {
        self
    }
    fn replace_with(&mut self, src: Box<dyn Obj>) -> bool {
        replace_impl(self, src)
    }
    fn clone_from_obj(&mut self, src: &dyn Obj) -> bool {
        match src.as_any().downcast_ref::<Self>() {
            Some(s) => {
                self.0.clone_from(&s.0);
                true
            }
            None => false,
        }
    }
    fn drop_image(self: Box<Self>) -> Vec<u8> {
        image_after_drop(self.0)
    }
}
impl<C: Ciph> Obj for BufD<C> {
    fn kind(&self) -> String {
        "cfbbuf".into()
    }
    fn unit(&self) -> usize {
        1
    }
    fn bytes(&mut self, inp: &[u8], junk: Option<&[u8]>) -> IoOut {
        let inp_m = MisVec::from_slice_in(inp);
        let inp: &[u8] = &inp_m;
        if junk.is_some() {
            return IoOut::unsupported();
        }
        let mut buf = MisVec::from_slice(inp);
        self.0.decrypt(&mut buf);
        IoOut::ok(buf)
    }
    fn export(&self) -> Option<(Vec<u8>, i64)> {
        let (b, p) = self.0.get_state();
        Some((b.to_vec(), p as i64))
    }
    fn clone_box(&self) -> Option<Box<dyn Obj>> {
        Some(Box::new(BufD(self.0.clone())))
    }
    fn debug(&self) -> Option<DebugInfo> {
        Some(dbg_info(&self.0))
    }
    fn as_any(&self) -> &dyn core::any::Any {
        self
    }
    fn replace_with(&mut self, src: Box<dyn Obj>) -> bool {
        replace_impl(self, src)
    }
    fn clone_from_obj(&mut self, src: &dyn Obj) -> bool {
        match src.as_any().downcast_ref::<Self>() {
            Some(s) => {
                self.0.clone_from(&s.0);
                true
            }
            None => false,
        }
    }
    fn drop_image(self: Box<Self>) -> Vec<u8> {
        image_after_drop(self.0)
    }
}

// ------------------------------------------------------------------------------------------------
// ciphertext stealing (one-shot, consuming)
// ------------------------------------------------------------------------------------------------

pub struct CtsObj<T> {
    pub t: T,
    pub kind: &'static str,
    pub dec: bool,
}

impl<T: cts::Encrypt + cts::Decrypt + Clone + 'static> Obj for CtsObj<T> {
    fn kind(&self) -> String {
        self.kind.to_string()
    }
    fn unit(&self) -> usize {
        1
    }
    fn oneshot(self: Box<Self>, op: &str, inp: &[u8], junk: Option<&[u8]>, inout: bool) -> IoOut {
        let inp_m = MisVec::from_slice_in(inp);
        let inp: &[u8] = &inp_m;
        if op != "cts" {
            return IoOut::unsupported();
        }
        match junk {
            None => {
                let mut buf = MisVec::from_slice(inp);
                let r = match (self.dec, inout) {
                    (true, false) => self.t.decrypt(&mut buf),
                    (true, true) => self.t.decrypt_inout((&mut buf[..]).into()),
                    (false, false) => self.t.encrypt(&mut buf),
                    (false, true) => self.t.encrypt_inout((&mut buf[..]).into()),
                };
                match r {
                    Ok(()) => IoOut::ok(buf),
                    Err(_) => IoOut::err(buf),
                }
            }
            Some(j) => {
                let mut out = MisVec::from_slice(j);
                let r = match (self.dec, inout && inp.len() == out.len()) {
                    (true, false) => self.t.decrypt_b2b(inp, &mut out),
                    (true, true) => self.t.decrypt_inout(InOutBuf::new(inp, &mut out[..]).unwrap()),
                    (false, false) => self.t.encrypt_b2b(inp, &mut out),
                    (false, true) => self.t.encrypt_inout(InOutBuf::new(inp, &mut out[..]).unwrap()),
                };
                match r {
                    Ok(()) => IoOut::ok(out),
                    Err(_) => IoOut::err(out),
                }
            }
        }
    }
    fn clone_box(&self) -> Option<Box<dyn Obj>> {
        Some(Box::new(CtsObj {
            t: self.t.clone(),
            kind: self.kind,
            dec: self.dec,
        }))
    }
    fn as_any(&self) -> &dyn core::any::Any {
        self
    }
    fn replace_with(&mut self, src: Box<dyn Obj>) -> bool {
        replace_impl(self, src)
    }
    fn clone_from_obj(&mut self, src: &dyn Obj) -> bool {
        match src.as_any().downcast_ref::<Self>() {
            Some(s) => {
                self.t.clone_from(&s.t);
                true
            }
            None => false,
        }
    }
    fn drop_image(self: Box<Self>) -> Vec<u8> {
        image_after_drop(self.t)
    }
}
