//! Harness-owned block ciphers.
//!
//! * `Toy<BS, PW>`: keyed, non-linear permutation of `BS` bytes with backend parallel width `PW`
//!   (parallel bodies process the group in REVERSE order).
//! * `Logged<C>`: adapter around any block cipher that records every `(x, E(x))` pair it computes
//!   (thread-local log), keeping the inner backend's parallel width.
use cipher::{
    AlgorithmName, Block, BlockCipherDecBackend, BlockCipherDecClosure, BlockCipherDecrypt,
    BlockCipherEncBackend, BlockCipherEncClosure, BlockCipherEncrypt, BlockSizeUser, InOut, Key,
    KeyInit, KeySizeUser, ParBlocks, ParBlocksSizeUser,
    array::ArraySize,
    consts::U16,
    crypto_common::BlockSizes,
    typenum::Unsigned,
};
use core::fmt;
use core::marker::PhantomData;
use std::cell::RefCell;
use std::collections::HashMap;

// ------------------------------------------------------------------------------------------------
// logging infrastructure
// ------------------------------------------------------------------------------------------------

/// One logged evaluation: cipher id, direction of the call (false = E, true = D), x, y with y = E(x).
pub struct Pair {
    pub cid: u32,
    pub dec: bool,
    pub x: Vec<u8>,
    pub y: Vec<u8>,
}

thread_local! {
    pub static LOG: RefCell<Vec<Pair>> = const { RefCell::new(Vec::new()) };
    static REG: RefCell<HashMap<(String, Vec<u8>), u32>> = RefCell::new(HashMap::new());
}

/// Forget all cipher ids and logged pairs (start of a scenario).
pub fn reset_log() {
    LOG.with(|l| l.borrow_mut().clear());
    REG.with(|r| r.borrow_mut().clear());
}

pub fn take_log() -> Vec<Pair> {
    LOG.with(|l| core::mem::take(&mut *l.borrow_mut()))
}

fn cid_for(fam: String, key: &[u8]) -> u32 {
    REG.with(|r| {
        let mut r = r.borrow_mut();
        let n = r.len() as u32 + 1;
        *r.entry((fam, key.to_vec())).or_insert(n)
    })
}

fn log_pair(cid: u32, dec: bool, x: &[u8], y: &[u8]) {
    LOG.with(|l| {
        l.borrow_mut().push(Pair {
            cid,
            dec,
            x: x.to_vec(),
            y: y.to_vec(),
        })
    });
}

// ------------------------------------------------------------------------------------------------
// Toy cipher
// ------------------------------------------------------------------------------------------------

#[derive(Clone)]
pub struct Toy<BS: BlockSizes, PW: ArraySize> {
    sbox: [u8; 256],
    inv: [u8; 256],
    rk: [u8; 64],
    _p: PhantomData<(BS, PW)>,
}

const ROUNDS: usize = 4;

impl<BS: BlockSizes, PW: ArraySize> Toy<BS, PW> {
    fn from_key(key: &[u8]) -> Self {
        // splitmix-style expansion of the key into an s-box permutation and round keys
        let mut st: u64 = 0x9E3779B97F4A7C15;
        for &b in key {
            st = (st ^ b as u64).wrapping_mul(0xBF58476D1CE4E5B9).rotate_left(23) ^ 0x94D049BB133111EB;
        }
        let mut next = || {
            st = st.wrapping_add(0x9E3779B97F4A7C15);
            let mut z = st;
            z = (z ^ (z >> 30)).wrapping_mul(0xBF58476D1CE4E5B9);
            z = (z ^ (z >> 27)).wrapping_mul(0x94D049BB133111EB);
            z ^ (z >> 31)
        };
        let mut sbox = [0u8; 256];
        for (i, s) in sbox.iter_mut().enumerate() {
            *s = i as u8;
        }
        for i in (1..256).rev() {
            let j = (next() % (i as u64 + 1)) as usize;
            sbox.swap(i, j);
        }
        let mut inv = [0u8; 256];
        for i in 0..256 {
            inv[sbox[i] as usize] = i as u8;
        }
        let mut rk = [0u8; 64];
        for r in rk.iter_mut() {
            *r = next() as u8;
        }
        Self {
            sbox,
            inv,
            rk,
            _p: PhantomData,
        }
    }

    pub fn enc_raw(&self, b: &mut [u8]) {
        let n = b.len();
        for r in 0..ROUNDS {
            for i in 0..n {
                b[i] = self.sbox[(b[i] ^ self.rk[(r * 13 + i) % 64]) as usize];
            }
            for i in 1..n {
                b[i] ^= self.sbox[b[i - 1].wrapping_add(r as u8) as usize];
            }
            if n > 1 {
                for i in (0..n - 1).rev() {
                    b[i] ^= self.sbox[(b[i + 1] ^ 0x5a) as usize];
                }
                b.rotate_left(1);
            }
        }
    }

    pub fn dec_raw(&self, b: &mut [u8]) {
        let n = b.len();
        for r in (0..ROUNDS).rev() {
            if n > 1 {
                b.rotate_right(1);
                for i in 0..n - 1 {
                    b[i] ^= self.sbox[(b[i + 1] ^ 0x5a) as usize];
                }
            }
            for i in (1..n).rev() {
                b[i] ^= self.sbox[b[i - 1].wrapping_add(r as u8) as usize];
            }
            for i in 0..n {
                b[i] = self.inv[b[i] as usize] ^ self.rk[(r * 13 + i) % 64];
            }
        }
    }
}

impl<BS: BlockSizes, PW: ArraySize> BlockSizeUser for Toy<BS, PW> {
    type BlockSize = BS;
}
impl<BS: BlockSizes, PW: ArraySize> KeySizeUser for Toy<BS, PW> {
    type KeySize = U16;
}
impl<BS: BlockSizes, PW: ArraySize> KeyInit for Toy<BS, PW> {
    fn new(key: &Key<Self>) -> Self {
        Self::from_key(key)
    }
}
impl<BS: BlockSizes, PW: ArraySize> AlgorithmName for Toy<BS, PW> {
    fn write_alg_name(f: &mut fmt::Formatter<'_>) -> fmt::Result {
        write!(f, "Toy{}", BS::USIZE)
    }
}

pub struct ToyBe<'a, BS: BlockSizes, PW: ArraySize>(&'a Toy<BS, PW>);

impl<BS: BlockSizes, PW: ArraySize> BlockSizeUser for ToyBe<'_, BS, PW> {
    type BlockSize = BS;
}
impl<BS: BlockSizes, PW: ArraySize> ParBlocksSizeUser for ToyBe<'_, BS, PW> {
    type ParBlocksSize = PW;
}
impl<BS: BlockSizes, PW: ArraySize> BlockCipherEncBackend for ToyBe<'_, BS, PW> {
    #[inline(never)]
    fn encrypt_block(&self, mut block: InOut<'_, '_, Block<Self>>) {
        let mut t = block.clone_in();
        self.0.enc_raw(&mut t);
        *block.get_out() = t;
    }
    #[inline(never)]
    fn encrypt_par_blocks(&self, mut blocks: InOut<'_, '_, ParBlocks<Self>>) {
        // strict in/out discipline: read every input first, write outputs in REVERSE order
        let ins = blocks.clone_in();
        for i in (0..PW::USIZE).rev() {
            let mut t = ins[i].clone();
            self.0.enc_raw(&mut t);
            *blocks.get(i).get_out() = t;
        }
    }
}
impl<BS: BlockSizes, PW: ArraySize> BlockCipherDecBackend for ToyBe<'_, BS, PW> {
    #[inline(never)]
    fn decrypt_block(&self, mut block: InOut<'_, '_, Block<Self>>) {
        let mut t = block.clone_in();
        self.0.dec_raw(&mut t);
        *block.get_out() = t;
    }
    #[inline(never)]
    fn decrypt_par_blocks(&self, mut blocks: InOut<'_, '_, ParBlocks<Self>>) {
        let ins = blocks.clone_in();
        for i in (0..PW::USIZE).rev() {
            let mut t = ins[i].clone();
            self.0.dec_raw(&mut t);
            *blocks.get(i).get_out() = t;
        }
    }
}

impl<BS: BlockSizes, PW: ArraySize> BlockCipherEncrypt for Toy<BS, PW> {
    fn encrypt_with_backend(&self, f: impl BlockCipherEncClosure<BlockSize = BS>) {
        f.call(&ToyBe(self))
    }
}
impl<BS: BlockSizes, PW: ArraySize> BlockCipherDecrypt for Toy<BS, PW> {
    fn decrypt_with_backend(&self, f: impl BlockCipherDecClosure<BlockSize = BS>) {
        f.call(&ToyBe(self))
    }
}

// ------------------------------------------------------------------------------------------------
// Logged adapter
// ------------------------------------------------------------------------------------------------

#[derive(Clone)]
pub struct Logged<C> {
    inner: C,
    pub cid: u32,
}

/// Parallel width of a cipher's encryption backend, discovered at run time.
pub fn par_width<C: BlockCipherEncrypt>(c: &C) -> usize {
    struct Probe<'a, BS: BlockSizes>(&'a mut usize, PhantomData<BS>);
    impl<BS: BlockSizes> BlockSizeUser for Probe<'_, BS> {
        type BlockSize = BS;
    }
    impl<BS: BlockSizes> BlockCipherEncClosure for Probe<'_, BS> {
        fn call<B: BlockCipherEncBackend<BlockSize = BS>>(self, _b: &B) {
            *self.0 = B::ParBlocksSize::USIZE;
        }
    }
    let mut w = 0;
    c.encrypt_with_backend(Probe(&mut w, PhantomData));
    w
}

pub fn alg_name<C: AlgorithmName>() -> String {
    struct N<C>(PhantomData<C>);
    impl<C: AlgorithmName> fmt::Display for N<C> {
        fn fmt(&self, f: &mut fmt::Formatter<'_>) -> fmt::Result {
            C::write_alg_name(f)
        }
    }
    format!("{}", N::<C>(PhantomData))
}

impl<C: BlockSizeUser> BlockSizeUser for Logged<C> {
    type BlockSize = C::BlockSize;
}
impl<C: KeySizeUser> KeySizeUser for Logged<C> {
    type KeySize = C::KeySize;
}
impl<C: KeyInit + AlgorithmName + BlockSizeUser> KeyInit for Logged<C> {
    fn new(key: &Key<Self>) -> Self {
        let fam = format!("{}/{}", alg_name::<C>(), C::BlockSize::USIZE);
        Self {
            inner: C::new(key),
            cid: cid_for(fam, key),
        }
    }
}
impl<C: AlgorithmName> AlgorithmName for Logged<C> {
    fn write_alg_name(f: &mut fmt::Formatter<'_>) -> fmt::Result {
        C::write_alg_name(f)
    }
}

struct LogBe<'a, B> {
    inner: &'a B,
    cid: u32,
}
impl<B: BlockSizeUser> BlockSizeUser for LogBe<'_, B> {
    type BlockSize = B::BlockSize;
}
impl<B: ParBlocksSizeUser> ParBlocksSizeUser for LogBe<'_, B> {
    type ParBlocksSize = B::ParBlocksSize;
}
impl<B: BlockCipherEncBackend> BlockCipherEncBackend for LogBe<'_, B> {
    fn encrypt_block(&self, mut block: InOut<'_, '_, Block<Self>>) {
        let x = block.clone_in();
        self.inner.encrypt_block(block.reborrow());
        log_pair(self.cid, false, &x, block.get_out());
    }
    fn encrypt_par_blocks(&self, mut blocks: InOut<'_, '_, ParBlocks<Self>>) {
        let xs = blocks.clone_in();
        self.inner.encrypt_par_blocks(blocks.reborrow());
        let ys = blocks.get_out();
        for i in 0..xs.len() {
            log_pair(self.cid, false, &xs[i], &ys[i]);
        }
    }
}
impl<B: BlockCipherDecBackend> BlockCipherDecBackend for LogBe<'_, B> {
    fn decrypt_block(&self, mut block: InOut<'_, '_, Block<Self>>) {
        let y = block.clone_in();
        self.inner.decrypt_block(block.reborrow());
        log_pair(self.cid, true, block.get_out(), &y);
    }
    fn decrypt_par_blocks(&self, mut blocks: InOut<'_, '_, ParBlocks<Self>>) {
        let ys = blocks.clone_in();
        self.inner.decrypt_par_blocks(blocks.reborrow());
        let xs = blocks.get_out();
        for i in 0..ys.len() {
            log_pair(self.cid, true, &xs[i], &ys[i]);
        }
    }
}

struct EncWrap<F> {
    f: F,
    cid: u32,
}
impl<F: BlockSizeUser> BlockSizeUser for EncWrap<F> {
    type BlockSize = F::BlockSize;
}
impl<F: BlockCipherEncClosure> BlockCipherEncClosure for EncWrap<F> {
    fn call<B: BlockCipherEncBackend<BlockSize = Self::BlockSize>>(self, backend: &B) {
        self.f.call(&LogBe {
            inner: backend,
            cid: self.cid,
        })
    }
}
struct DecWrap<F> {
    f: F,
    cid: u32,
}
impl<F: BlockSizeUser> BlockSizeUser for DecWrap<F> {
    type BlockSize = F::BlockSize;
}
impl<F: BlockCipherDecClosure> BlockCipherDecClosure for DecWrap<F> {
    fn call<B: BlockCipherDecBackend<BlockSize = Self::BlockSize>>(self, backend: &B) {
        self.f.call(&LogBe {
            inner: backend,
            cid: self.cid,
        })
    }
}

impl<C: BlockCipherEncrypt> BlockCipherEncrypt for Logged<C> {
    fn encrypt_with_backend(&self, f: impl BlockCipherEncClosure<BlockSize = Self::BlockSize>) {
        self.inner.encrypt_with_backend(EncWrap { f, cid: self.cid })
    }
}
impl<C: BlockCipherDecrypt> BlockCipherDecrypt for Logged<C> {
    fn decrypt_with_backend(&self, f: impl BlockCipherDecClosure<BlockSize = Self::BlockSize>) {
        self.inner.decrypt_with_backend(DecWrap { f, cid: self.cid })
    }
}
