//! Per-cipher-type factories: construct any mode object of /repo over a concrete (logged) cipher.
use crate::cipher_impl::{Logged, Toy, par_width};
use crate::obj::*;
use cipher::{
    InnerIvInit, Key, KeyInit, KeyIvInit, StreamCipherCoreWrapper, consts::*,
    crypto_common::InnerInit,
    typenum::Unsigned,
};

pub trait Factory {
    fn fam(&self) -> String;
    fn bs(&self) -> usize;
    fn w(&self) -> usize;
    fn keylen(&self) -> usize;
    fn supports(&self, kind: &str) -> bool;
    fn cid(&self, key: &[u8]) -> u32;
    fn make(&self, kind: &str, dir: &str, key: &[u8], iv: &[u8], via: &str, bpos: Option<u128>) -> Result<Box<dyn Obj>, Res>;
    fn import(&self, kind: &str, dir: &str, key: &[u8], state: &[u8], pos: i64) -> Result<Box<dyn Obj>, Res>;
}

pub fn construct<M>(key: &[u8], iv: &[u8], via: &str) -> Result<M, Res>
where
    M: InnerIvInit + KeyIvInit,
    M::Inner: KeyInit,
{
    match via {
        "inner" => {
            let c = <M::Inner as KeyInit>::new_from_slice(key).map_err(|_| Res::Err)?;
            M::inner_iv_slice_init(c, iv).map_err(|_| Res::Err)
        }
        "key_iv" => {
            let k = <&Key<M>>::try_from(key).map_err(|_| Res::Err)?;
            let i = <&cipher::Iv<M>>::try_from(iv).map_err(|_| Res::Err)?;
            Ok(<M as KeyIvInit>::new(k, i))
        }
        "slices" => <M as KeyIvInit>::new_from_slices(key, iv).map_err(|_| Res::Err),
        _ => panic!("harness: bad via"),
    }
}

pub fn construct_noiv<M>(key: &[u8], via: &str) -> Result<M, Res>
where
    M: InnerInit + KeyInit,
    M::Inner: KeyInit,
{
    match via {
        "inner" => {
            let c = <M::Inner as KeyInit>::new_from_slice(key).map_err(|_| Res::Err)?;
            Ok(M::inner_init(c))
        }
        "key_iv" => {
            let k = <&Key<M>>::try_from(key).map_err(|_| Res::Err)?;
            Ok(<M as KeyInit>::new(k))
        }
        "slices" => <M as KeyInit>::new_from_slice(key).map_err(|_| Res::Err),
        _ => panic!("harness: bad via"),
    }
}

macro_rules! opt {
    (yes, $b:block) => {
        $b
    };
    (no, $b:block) => {};
}
macro_rules! flag {
    (yes) => {
        true
    };
    (no) => {
        false
    };
}

macro_rules! ctr_arms {
    ($kind:ident, $dir:ident, $key:ident, $iv:ident, $via:ident, $bpos:ident, $L:ty, $name:expr, $flavor:ty) => {
        if $kind == $name {
            let mut core: ctr::CtrCore<$L, $flavor> = construct($key, $iv, $via)?;
            if let Some(b) = $bpos {
                core.set_bpos_u128(b);
            }
            return Ok(Box::new(Strm(StreamCipherCoreWrapper::from_core(core))));
        }
        if $kind == concat!($name, "core") {
            let core: ctr::CtrCore<$L, $flavor> = construct($key, $iv, $via)?;
            return Ok(Box::new(CoreObj(core)));
        }
    };
}

macro_rules! factory {
    ($name:ident, $c:ty, $fam:expr, ige=$ige:tt, ctr32=$c32:tt, ctr64=$c64:tt, ctr128=$c128:tt, belt=$belt:tt) => {
        pub struct $name;
        impl Factory for $name {
            fn fam(&self) -> String {
                $fam.to_string()
            }
            fn bs(&self) -> usize {
                <<$c as cipher::BlockSizeUser>::BlockSize as Unsigned>::USIZE
            }
            fn w(&self) -> usize {
                let key = vec![0u8; self.keylen()];
                par_width(&<$c as KeyInit>::new_from_slice(&key).unwrap())
            }
            fn keylen(&self) -> usize {
                <<$c as cipher::KeySizeUser>::KeySize as Unsigned>::USIZE
            }
            fn cid(&self, key: &[u8]) -> u32 {
                <Logged<$c> as KeyInit>::new_from_slice(key).unwrap().cid
            }
            fn supports(&self, kind: &str) -> bool {
                match kind {
                    "cbc" | "pcbc" | "cfb" | "cfb8" | "ofbblk" | "cfbbuf" | "ofb" | "ofbcore" | "cbccs1"
                    | "cbccs2" | "cbccs3" | "ecbcs1" | "ecbcs2" | "ecbcs3" => true,
                    "ige" => flag!($ige),
                    "ctr32be" | "ctr32le" | "ctr32becore" | "ctr32lecore" => flag!($c32),
                    "ctr64be" | "ctr64le" | "ctr64becore" | "ctr64lecore" => flag!($c64),
                    "ctr128be" | "ctr128le" | "ctr128becore" | "ctr128lecore" => flag!($c128),
                    "belt" | "beltcore" => flag!($belt),
                    _ => false,
                }
            }
            #[allow(unreachable_code)]
            fn make(&self, kind: &str, dir: &str, key: &[u8], iv: &[u8], via: &str, bpos: Option<u128>) -> Result<Box<dyn Obj>, Res> {
                type L = Logged<$c>;
                let enc = dir == "enc";
                match kind {
                    "cbc" => {
                        return if enc {
                            Ok(Box::new(BlkEnc(construct::<cbc::Encryptor<L>>(key, iv, via)?)))
                        } else {
                            Ok(Box::new(BlkDec(construct::<cbc::Decryptor<L>>(key, iv, via)?)))
                        };
                    }
                    "pcbc" => {
                        return if enc {
                            Ok(Box::new(BlkEnc(construct::<pcbc::Encryptor<L>>(key, iv, via)?)))
                        } else {
                            Ok(Box::new(BlkDec(construct::<pcbc::Decryptor<L>>(key, iv, via)?)))
                        };
                    }
                    "cfb" => {
                        return if enc {
                            Ok(Box::new(BlkEnc(construct::<cfb_mode::Encryptor<L>>(key, iv, via)?)))
                        } else {
                            Ok(Box::new(BlkDec(construct::<cfb_mode::Decryptor<L>>(key, iv, via)?)))
                        };
                    }
                    "cfb8" => {
                        return if enc {
                            Ok(Box::new(BlkEnc(construct::<cfb8::Encryptor<L>>(key, iv, via)?)))
                        } else {
                            Ok(Box::new(BlkDec(construct::<cfb8::Decryptor<L>>(key, iv, via)?)))
                        };
                    }
                    "ofbblk" => {
                        return if enc {
                            Ok(Box::new(BlkEnc(construct::<ofb::OfbCore<L>>(key, iv, via)?)))
                        } else {
                            Ok(Box::new(BlkDec(construct::<ofb::OfbCore<L>>(key, iv, via)?)))
                        };
                    }
                    "cfbbuf" => {
                        return if enc {
                            Ok(Box::new(BufE(construct::<cfb_mode::BufEncryptor<L>>(key, iv, via)?)))
                        } else {
                            Ok(Box::new(BufD(construct::<cfb_mode::BufDecryptor<L>>(key, iv, via)?)))
                        };
                    }
                    "ofb" => {
                        let core: ofb::OfbCore<L> = construct(key, iv, via)?;
                        return Ok(Box::new(Strm(StreamCipherCoreWrapper::from_core(core))));
                    }
                    "ofbcore" => {
                        let core: ofb::OfbCore<L> = construct(key, iv, via)?;
                        return Ok(Box::new(CoreObj(core)));
                    }
                    "cbccs1" => {
                        let t: cts::CbcCs1<L> = construct(key, iv, via)?;
                        return Ok(Box::new(CtsObj { t, kind: "cbccs1", dec: !enc }));
                    }
                    "cbccs2" => {
                        let t: cts::CbcCs2<L> = construct(key, iv, via)?;
                        return Ok(Box::new(CtsObj { t, kind: "cbccs2", dec: !enc }));
                    }
                    "cbccs3" => {
                        let t: cts::CbcCs3<L> = construct(key, iv, via)?;
                        return Ok(Box::new(CtsObj { t, kind: "cbccs3", dec: !enc }));
                    }
                    "ecbcs1" => {
                        let t: cts::EcbCs1<L> = construct_noiv(key, via)?;
                        return Ok(Box::new(CtsObj { t, kind: "ecbcs1", dec: !enc }));
                    }
                    "ecbcs2" => {
                        let t: cts::EcbCs2<L> = construct_noiv(key, via)?;
                        return Ok(Box::new(CtsObj { t, kind: "ecbcs2", dec: !enc }));
                    }
                    "ecbcs3" => {
                        let t: cts::EcbCs3<L> = construct_noiv(key, via)?;
                        return Ok(Box::new(CtsObj { t, kind: "ecbcs3", dec: !enc }));
                    }
                    _ => {}
                }
                opt!($ige, {
                    if kind == "ige" {
                        return if enc {
                            Ok(Box::new(BlkEnc(construct::<ige::Encryptor<L>>(key, iv, via)?)))
                        } else {
                            Ok(Box::new(BlkDec(construct::<ige::Decryptor<L>>(key, iv, via)?)))
                        };
                    }
                });
                opt!($c32, {
                    ctr_arms!(kind, dir, key, iv, via, bpos, L, "ctr32be", ctr::flavors::Ctr32BE);
                    ctr_arms!(kind, dir, key, iv, via, bpos, L, "ctr32le", ctr::flavors::Ctr32LE);
                });
                opt!($c64, {
                    ctr_arms!(kind, dir, key, iv, via, bpos, L, "ctr64be", ctr::flavors::Ctr64BE);
                    ctr_arms!(kind, dir, key, iv, via, bpos, L, "ctr64le", ctr::flavors::Ctr64LE);
                });
                opt!($c128, {
                    ctr_arms!(kind, dir, key, iv, via, bpos, L, "ctr128be", ctr::flavors::Ctr128BE);
                    ctr_arms!(kind, dir, key, iv, via, bpos, L, "ctr128le", ctr::flavors::Ctr128LE);
                });
                opt!($belt, {
                    if kind == "belt" {
                        let mut core: belt_ctr::BeltCtrCore<L> = construct(key, iv, via)?;
                        if let Some(b) = bpos {
                            core.set_bpos_u128(b);
                        }
                        return Ok(Box::new(Strm(StreamCipherCoreWrapper::from_core(core))));
                    }
                    if kind == "beltcore" {
                        let core: belt_ctr::BeltCtrCore<L> = construct(key, iv, via)?;
                        return Ok(Box::new(CoreObj(core)));
                    }
                });
                let _ = (dir, bpos);
                Err(Res::Unsupported)
            }
            fn import(&self, kind: &str, dir: &str, key: &[u8], state: &[u8], pos: i64) -> Result<Box<dyn Obj>, Res> {
                type L = Logged<$c>;
                if kind == "cfbbuf" {
                    let c = <L as KeyInit>::new_from_slice(key).map_err(|_| Res::Err)?;
                    let blk = <&cipher::Block<L>>::try_from(state).map_err(|_| Res::Err)?;
                    return if dir == "enc" {
                        Ok(Box::new(BufE(cfb_mode::BufEncryptor::from_state(c, blk, pos as usize))))
                    } else {
                        Ok(Box::new(BufD(cfb_mode::BufDecryptor::from_state(c, blk, pos as usize))))
                    };
                }
                self.make(kind, dir, key, state, "inner", None)
            }
        }
    };
}

// toy ciphers: (block size, parallel width)
factory!(T1W1, Toy<U1, U1>, "toy", ige = yes, ctr32 = no, ctr64 = no, ctr128 = no, belt = no);
factory!(T1W3, Toy<U1, U3>, "toy", ige = yes, ctr32 = no, ctr64 = no, ctr128 = no, belt = no);
factory!(T2W1, Toy<U2, U1>, "toy", ige = yes, ctr32 = no, ctr64 = no, ctr128 = no, belt = no);
factory!(T2W2, Toy<U2, U2>, "toy", ige = yes, ctr32 = no, ctr64 = no, ctr128 = no, belt = no);
factory!(T2W3, Toy<U2, U3>, "toy", ige = yes, ctr32 = no, ctr64 = no, ctr128 = no, belt = no);
factory!(T3W1, Toy<U3, U1>, "toy", ige = yes, ctr32 = no, ctr64 = no, ctr128 = no, belt = no);
factory!(T3W2, Toy<U3, U2>, "toy", ige = yes, ctr32 = no, ctr64 = no, ctr128 = no, belt = no);
factory!(T3W5, Toy<U3, U5>, "toy", ige = yes, ctr32 = no, ctr64 = no, ctr128 = no, belt = no);
factory!(T4W6, Toy<U4, U6>, "toy", ige = yes, ctr32 = yes, ctr64 = no, ctr128 = no, belt = no);
factory!(T4W1, Toy<U4, U1>, "toy", ige = yes, ctr32 = yes, ctr64 = no, ctr128 = no, belt = no);
factory!(T4W3, Toy<U4, U3>, "toy", ige = yes, ctr32 = yes, ctr64 = no, ctr128 = no, belt = no);
factory!(T5W4, Toy<U5, U4>, "toy", ige = yes, ctr32 = no, ctr64 = no, ctr128 = no, belt = no);
factory!(T6W2, Toy<U6, U2>, "toy", ige = yes, ctr32 = no, ctr64 = no, ctr128 = no, belt = no);
factory!(T7W3, Toy<U7, U3>, "toy", ige = yes, ctr32 = no, ctr64 = no, ctr128 = no, belt = no);
factory!(T8W1, Toy<U8, U1>, "toy", ige = yes, ctr32 = yes, ctr64 = yes, ctr128 = no, belt = no);
factory!(T8W2, Toy<U8, U2>, "toy", ige = yes, ctr32 = yes, ctr64 = yes, ctr128 = no, belt = no);
factory!(T8W5, Toy<U8, U5>, "toy", ige = yes, ctr32 = yes, ctr64 = yes, ctr128 = no, belt = no);
factory!(T12W3, Toy<U12, U3>, "toy", ige = yes, ctr32 = yes, ctr64 = no, ctr128 = no, belt = no);
factory!(T16W1, Toy<U16, U1>, "toy", ige = yes, ctr32 = yes, ctr64 = yes, ctr128 = yes, belt = yes);
factory!(T16W2, Toy<U16, U2>, "toy", ige = yes, ctr32 = yes, ctr64 = yes, ctr128 = yes, belt = yes);
factory!(T16W3, Toy<U16, U3>, "toy", ige = yes, ctr32 = yes, ctr64 = yes, ctr128 = yes, belt = yes);
factory!(T16W4, Toy<U16, U4>, "toy", ige = yes, ctr32 = yes, ctr64 = yes, ctr128 = yes, belt = yes);
factory!(T16W8, Toy<U16, U8>, "toy", ige = yes, ctr32 = yes, ctr64 = yes, ctr128 = yes, belt = yes);
factory!(T16W16, Toy<U16, U16>, "toy", ige = yes, ctr32 = yes, ctr64 = yes, ctr128 = yes, belt = yes);
factory!(T16W32, Toy<U16, U32>, "toy", ige = yes, ctr32 = yes, ctr64 = yes, ctr128 = yes, belt = yes);
factory!(T64W6, Toy<U64, U6>, "toy", ige = yes, ctr32 = yes, ctr64 = yes, ctr128 = yes, belt = no);
factory!(T20W2, Toy<U20, U2>, "toy", ige = yes, ctr32 = yes, ctr64 = no, ctr128 = no, belt = no);
factory!(T24W2, Toy<U24, U2>, "toy", ige = yes, ctr32 = yes, ctr64 = yes, ctr128 = no, belt = no);
factory!(T32W3, Toy<U32, U3>, "toy", ige = yes, ctr32 = yes, ctr64 = yes, ctr128 = yes, belt = no);
factory!(T48W2, Toy<U48, U2>, "toy", ige = yes, ctr32 = yes, ctr64 = yes, ctr128 = yes, belt = no);
factory!(T127W2, Toy<U127, U2>, "toy", ige = yes, ctr32 = no, ctr64 = no, ctr128 = no, belt = no);
factory!(T255W3, Toy<U255, U3>, "toy", ige = yes, ctr32 = no, ctr64 = no, ctr128 = no, belt = no);
// real ciphers
factory!(Aes128F, aes::Aes128, "aes128", ige = yes, ctr32 = yes, ctr64 = yes, ctr128 = yes, belt = yes);
factory!(Aes256F, aes::Aes256, "aes256", ige = yes, ctr32 = yes, ctr64 = yes, ctr128 = yes, belt = yes);
factory!(MagmaF, magma::Magma, "magma", ige = yes, ctr32 = yes, ctr64 = yes, ctr128 = no, belt = no);
factory!(KuzF, kuznyechik::Kuznyechik, "kuznyechik", ige = yes, ctr32 = yes, ctr64 = yes, ctr128 = yes, belt = yes);
factory!(BeltF, belt_block::BeltBlock, "beltblock", ige = yes, ctr32 = yes, ctr64 = yes, ctr128 = yes, belt = yes);

pub fn all_factories() -> Vec<Box<dyn Factory>> {
    vec![
        Box::new(T1W1),
        Box::new(T1W3),
        Box::new(T2W1),
        Box::new(T2W2),
        Box::new(T2W3),
        Box::new(T3W1),
        Box::new(T3W2),
        Box::new(T3W5),
        Box::new(T4W6),
        Box::new(T4W1),
        Box::new(T4W3),
        Box::new(T5W4),
        Box::new(T6W2),
        Box::new(T7W3),
        Box::new(T8W1),
        Box::new(T8W2),
        Box::new(T8W5),
        Box::new(T12W3),
        Box::new(T16W1),
        Box::new(T16W2),
        Box::new(T16W3),
        Box::new(T16W4),
        Box::new(T16W8),
        Box::new(T16W16),
        Box::new(T16W32),
        Box::new(T64W6),
        Box::new(T20W2),
        Box::new(T24W2),
        Box::new(T32W3),
        Box::new(T48W2),
        Box::new(T127W2),
        Box::new(T255W3),
        Box::new(Aes128F),
        Box::new(Aes256F),
        Box::new(MagmaF),
        Box::new(KuzF),
        Box::new(BeltF),
    ]
}
