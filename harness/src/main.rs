mod cipher_impl;
mod factory;
mod gens;
mod obj;
mod scen;

use serde_json::Value;
use std::io::Write;

fn arg(args: &[String], name: &str) -> Option<String> {
    args.iter().position(|a| a == name).and_then(|i| args.get(i + 1).cloned())
}

fn main() {
    std::panic::set_hook(Box::new(|info| {
        if !scen::GUARDED.with(|g| g.get()) {
            eprintln!("harness panic: {info}");
        }
    }));
    let args: Vec<String> = std::env::args().collect();
    let cmd = args.get(1).map(|s| s.as_str()).unwrap_or("");
    let facs = factory::all_factories();
    match cmd {
        "facs" => {
            for f in &facs {
                println!("{}/{}/{}", f.fam(), f.bs(), f.w());
            }
        }
        // explore --prop C07 --seed N --count K --tier quick --out FILE
        "explore" => {
            let prop = arg(&args, "--prop").expect("--prop");
            let seed: u64 = arg(&args, "--seed").and_then(|s| s.parse().ok()).unwrap_or(1);
            let count: usize = arg(&args, "--count").and_then(|s| s.parse().ok()).unwrap_or(100);
            let tier = arg(&args, "--tier").unwrap_or("quick".into());
            let out = arg(&args, "--out").expect("--out");
            let mut w = std::io::BufWriter::new(std::fs::File::create(&out).unwrap());
            let mut wb = std::io::BufWriter::new(std::fs::File::create(format!("{out}.beh")).unwrap());
            let idbase: u64 = arg(&args, "--idbase").and_then(|s| s.parse().ok()).unwrap_or(0);
            let mut lines = 0usize;
            let mut nscn = 0usize;
            // --twin N: the first N behaviours carry a twin key (the same behaviours are recorded in several processes)
            let twin_n: usize = arg(&args, "--twin").and_then(|s| s.parse().ok()).unwrap_or(0);
            // --warm BS: before anything else this process uses every kind of object once with a cipher of that block
            // size ("the first instance of a mode in this process has block size BS")
            if let Some(wbs) = arg(&args, "--warm").and_then(|s| s.parse::<usize>().ok()) {
                for (j, beh) in gens::warmup(&facs, wbs).into_iter().enumerate() {
                    let sseed = seed.wrapping_mul(0x9E3779B97F4A7C15).wrapping_add(900_000 + j as u64);
                    let mut it = scen::Interp::new(&facs, sseed);
                    it.run(beh.as_array().unwrap());
                    let id = idbase + 900_000 + j as u64;
                    let recs = it.finish(id, &prop, "warmup", &beh);
                    if recs.len() <= 1 {
                        continue;
                    }
                    nscn += 1;
                    writeln!(wb, "{}", serde_json::json!({"id": id, "prop": prop, "gen": "warmup",
                        "sseed": sseed.to_string(), "cmds": beh})).unwrap();
                    for r in recs {
                        writeln!(w, "{}", r).unwrap();
                        lines += 1;
                    }
                }
            }
            for i in 0..count {
                let sseed = seed.wrapping_mul(0x9E3779B97F4A7C15).wrapping_add(i as u64);
                let mut rng = scen::Rng::new(sseed);
                let beh = gens::generate(&prop, &tier, &facs, &mut rng, i);
                // leave a note of the behaviour being executed: if the code under test takes the whole process
                // down (abort, stack overflow) the driver can still name the behaviour that did it
                let _ = std::fs::write(format!("{out}.cur"), serde_json::json!({"id": idbase + i as u64, "prop": prop,
                    "sseed": sseed.to_string(), "cmds": beh}).to_string());
                let mut it = scen::Interp::new(&facs, sseed);
                if i < twin_n {
                    it.twin = format!("t{i}");
                }
                it.run(beh.as_array().unwrap());
                let gen_arg = arg(&args, "--gen");
                let (pname, gname) = match prop.strip_suffix("probe") {
                    Some(p) => (p.to_string(), "probe"),
                    None => (prop.clone(), gen_arg.as_deref().unwrap_or("explore")),
                };
                let recs = it.finish(idbase + i as u64, &pname, gname, &beh);
                if recs.len() <= 1 {
                    continue;
                }
                nscn += 1;
                writeln!(wb, "{}", serde_json::json!({"id": idbase + i as u64, "prop": pname, "gen": gname,
                    "sseed": sseed.to_string(), "cmds": beh})).unwrap();
                for r in recs {
                    writeln!(w, "{}", r).unwrap();
                    lines += 1;
                }
            }
            let _ = std::fs::remove_file(format!("{out}.cur"));
            println!("scenarios={} lines={}", nscn, lines);
        }
        // replay --in FILE(jsonl of behaviours: {"prop":..,"cmds":[..]}) --seed N --reps R --out FILE
        "replay" => {
            let inp = arg(&args, "--in").expect("--in");
            let seed: u64 = arg(&args, "--seed").and_then(|s| s.parse().ok()).unwrap_or(1);
            let reps: usize = arg(&args, "--reps").and_then(|s| s.parse().ok()).unwrap_or(1);
            let out = arg(&args, "--out").expect("--out");
            let append = args.iter().any(|a| a == "--append");
            let f = std::fs::OpenOptions::new().create(true).write(true).append(append).truncate(!append).open(&out).unwrap();
            let mut w = std::io::BufWriter::new(f);
            let fb = std::fs::OpenOptions::new().create(true).write(true).append(append).truncate(!append)
                .open(format!("{out}.beh")).unwrap();
            let mut wb = std::io::BufWriter::new(fb);
            let genname = arg(&args, "--gen").unwrap_or("replay".into());
            let text = std::fs::read_to_string(&inp).unwrap();
            let mut nscn = 0usize;
            let mut lines = 0usize;
            let idbase: u64 = arg(&args, "--idbase").and_then(|s| s.parse().ok()).unwrap_or(1_000_000);
            for (i, line) in text.lines().enumerate() {
                if line.trim().is_empty() {
                    continue;
                }
                let b: Value = serde_json::from_str(line).expect("replay: bad json");
                for r in 0..reps {
                    let sseed = match b.get("sseed").and_then(|v| v.as_str()) {
                        Some(x) if reps == 1 => x.parse().unwrap(),
                        _ => seed.wrapping_mul(0xD1B54A32D192ED03).wrapping_add((i * reps + r) as u64),
                    };
                    let _ = std::fs::write(format!("{out}.cur"), serde_json::json!({"id": idbase + (i * reps + r) as u64,
                        "prop": b["prop"], "sseed": sseed.to_string(), "cmds": b["cmds"]}).to_string());
                    let mut it = scen::Interp::new(&facs, sseed);
                    it.run(b["cmds"].as_array().unwrap());
                    let prop = b["prop"].as_str().unwrap_or("").to_string();
                    let sid = idbase + (i * reps + r) as u64;
                    let recs = it.finish(sid, &prop, &genname, &b["id"]);
                    if recs.len() <= 1 {
                        continue;
                    }
                    nscn += 1;
                    writeln!(wb, "{}", serde_json::json!({"id": sid, "prop": prop, "gen": genname,
                        "sseed": sseed.to_string(), "cmds": b["cmds"], "beh": b.get("id")})).unwrap();
                    for rec in recs {
                        writeln!(w, "{}", rec).unwrap();
                        lines += 1;
                    }
                }
            }
            let _ = std::fs::remove_file(format!("{out}.cur"));
            println!("scenarios={} lines={}", nscn, lines);
        }
        _ => {
            eprintln!("usage: bmverif facs|explore|replay ...");
            std::process::exit(2);
        }
    }
}
