//! Scenario interpreter: executes an abstract behaviour (a JSON list of commands, produced by the
//! random generators or by TLC) against the real crates and records one event per public call.
use crate::cipher_impl::{reset_log, take_log};
use crate::factory::Factory;
use crate::obj::{IoOut, Obj, Res};
use serde_json::{Value, json};
use std::collections::HashMap;
use std::panic::{AssertUnwindSafe, catch_unwind};

thread_local! {
    pub static GUARDED: std::cell::Cell<bool> = const { std::cell::Cell::new(false) };
}

#[derive(Clone)]
pub struct Rng(pub u64);
impl Rng {
    pub fn new(seed: u64) -> Self {
        Rng(seed ^ 0x5DEECE66D1234567)
    }
    pub fn next(&mut self) -> u64 {
        self.0 = self.0.wrapping_add(0x9E3779B97F4A7C15);
        let mut z = self.0;
        z = (z ^ (z >> 30)).wrapping_mul(0xBF58476D1CE4E5B9);
        z = (z ^ (z >> 27)).wrapping_mul(0x94D049BB133111EB);
        z ^ (z >> 31)
    }
    pub fn below(&mut self, n: usize) -> usize {
        if n == 0 { 0 } else { (self.next() % n as u64) as usize }
    }
    pub fn range(&mut self, lo: usize, hi: usize) -> usize {
        lo + self.below(hi - lo + 1)
    }
    pub fn coin(&mut self) -> bool {
        self.next() & 1 == 1
    }
    pub fn chance(&mut self, num: usize, den: usize) -> bool {
        self.below(den) < num
    }
    pub fn pick<'a, T>(&mut self, v: &'a [T]) -> &'a T {
        &v[self.below(v.len())]
    }
    pub fn bytes(&mut self, n: usize) -> Vec<u8> {
        (0..n).map(|_| self.next() as u8).collect()
    }
}

fn stream_bytes(seed: u64, tag: u64, id: u64, from: usize, len: usize) -> Vec<u8> {
    // byte i of stream id is a pure function of (seed, tag, id, i)
    (from..from + len)
        .map(|i| {
            let mut r = Rng::new(
                seed ^ tag.wrapping_mul(0xA24BAED4963EE407) ^ id.wrapping_mul(0x9FB21C651E98DF25)
                    ^ (i as u64 / 8).wrapping_mul(0xD6E8FEB86659FD93),
            );
            (r.next() >> (8 * (i % 8))) as u8
        })
        .collect()
}

pub fn digits(mut v: u128) -> Value {
    let mut d = vec![];
    while v > 0 {
        d.push((v & 0xff) as u64);
        v >>= 8;
    }
    json!(d)
}

fn res_str(r: Res) -> &'static str {
    match r {
        Res::Ok => "ok",
        Res::Err => "err",
        Res::Unsupported => "unsupported",
    }
}

struct Live {
    obj: Option<Box<dyn Obj>>,
    fac: usize,
    kind: String,
    dir: String,
    key: Vec<u8>,
    src: Value,
    off: usize,
    out: Vec<u8>,
    last_export: Option<(Vec<u8>, i64)>,
    iv: Vec<u8>,
}

pub struct Interp<'a> {
    pub facs: &'a [Box<dyn Factory>],
    pub seed: u64,
    pub events: Vec<Value>,
    objs: HashMap<String, Live>,
    pub skipped: usize,
    /// non-empty: the same behaviour is recorded again in another process under the same key (C16, determinism
    /// across process histories)
    pub twin: String,
}

pub fn fac_index(facs: &[Box<dyn Factory>], name: &str) -> Option<usize> {
    // name: "fam/bs/w"
    facs.iter()
        .position(|f| format!("{}/{}/{}", f.fam(), f.bs(), f.w()) == name)
}

/// keystream length in blocks for stream kinds: 2^w - 1 (BelT: 2^128 - 1), None for OFB
pub fn ctr_bits(kind: &str) -> Option<u32> {
    let k = kind.trim_end_matches("core");
    match k {
        "ctr32be" | "ctr32le" => Some(32),
        "ctr64be" | "ctr64le" => Some(64),
        "ctr128be" | "ctr128le" | "belt" => Some(128),
        _ => None,
    }
}

impl<'a> Interp<'a> {
    pub fn new(facs: &'a [Box<dyn Factory>], seed: u64) -> Self {
        reset_log();
        Interp {
            facs,
            seed,
            events: vec![],
            objs: HashMap::new(),
            skipped: 0,
            twin: String::new(),
        }
    }

    fn key_bytes(&self, fac: usize, cmd: &Value) -> Vec<u8> {
        let idx = cmd["key"].as_u64().unwrap_or(0);
        let n = cmd
            .get("keylen")
            .and_then(|v| v.as_u64())
            .map(|v| v as usize)
            .unwrap_or(self.facs[fac].keylen());
        stream_bytes(self.seed, 1, idx, 0, n)
    }

    fn iv_bytes(&self, fac: usize, kind: &str, key: &[u8], cmd: &Value) -> Vec<u8> {
        let bs = self.facs[fac].bs();
        let full = if kind == "ige" { 2 * bs } else { bs };
        let n = cmd
            .get("ivlen")
            .and_then(|v| v.as_u64())
            .map(|v| v as usize)
            .unwrap_or(full);
        let iv = &cmd["iv"];
        if let Some(b) = iv.get("bytes") {
            return b.as_array().unwrap().iter().map(|v| v.as_u64().unwrap() as u8).collect();
        }
        if let Some(b) = iv.get("fill") {
            // a degenerate IV: one byte value repeated (all zero, all 0xFF)
            return vec![b.as_u64().unwrap() as u8; n];
        }
        if let Some(s) = iv.get("belt_s") {
            // IV such that E(IV) = s (little endian), so that BelT's counter starts at s
            let s: u128 = s.as_str().unwrap().parse().unwrap();
            return self.raw_dec(fac, key, &s.to_le_bytes());
        }
        let id = iv.get("rand").and_then(|v| v.as_u64()).unwrap_or(0);
        let mut v = stream_bytes(self.seed, 2, id, 0, n);
        if let Some(f) = iv.get("field") {
            // force the counter field of a CTR IV: {"kind":..., "val": decimal}
            let val: u128 = f["val"].as_str().unwrap().parse().unwrap();
            let k = kind.trim_end_matches("core");
            let wbytes = (ctr_bits(k).unwrap() / 8) as usize;
            if v.len() >= wbytes {
                if k.ends_with("be") {
                    let be = val.to_be_bytes();
                    let l = v.len();
                    v[l - wbytes..].copy_from_slice(&be[16 - wbytes..]);
                } else {
                    let le = val.to_le_bytes();
                    v[..wbytes].copy_from_slice(&le[..wbytes]);
                }
            }
        }
        v
    }

    /// raw block decryption under `key` through a CBC decryptor with zero IV (public API only)
    fn raw_dec(&self, fac: usize, key: &[u8], block: &[u8]) -> Vec<u8> {
        let bs = self.facs[fac].bs();
        let mut o = self.facs[fac]
            .make("cbc", "dec", key, &vec![0u8; bs], "inner", None)
            .ok()
            .unwrap();
        o.blocks(block, None, false, false).out
    }

    fn src_bytes(&self, src: &Value, from: usize, len: usize) -> Option<Vec<u8>> {
        if let Some(id) = src.get("rand") {
            return Some(stream_bytes(self.seed, 3, id.as_u64().unwrap(), from, len));
        }
        if src.get("zero").is_some() {
            return Some(vec![0u8; len]);
        }
        if let Some(b) = src.get("fill") {
            return Some(vec![b.as_u64().unwrap() as u8; len]);
        }
        if let Some(o) = src.get("out") {
            let l = self.objs.get(o.as_str().unwrap())?;
            if from + len > l.out.len() {
                return None;
            }
            return Some(l.out[from..from + len].to_vec());
        }
        if let Some(b) = src.get("bytes") {
            let v: Vec<u8> = b.as_array().unwrap().iter().map(|v| v.as_u64().unwrap() as u8).collect();
            if from + len > v.len() {
                return None;
            }
            return Some(v[from..from + len].to_vec());
        }
        if let Some(x) = src.get("xor") {
            let mut base = self.src_bytes(x, from, len)?;
            let at = src["at"].as_u64().unwrap() as usize;
            let delta: Vec<u8> = src["delta"].as_array().unwrap().iter().map(|v| v.as_u64().unwrap() as u8).collect();
            for (i, d) in delta.iter().enumerate() {
                let p = at + i;
                if p >= from && p < from + len {
                    base[p - from] ^= d;
                }
            }
            return Some(base);
        }
        if let Some(x) = src.get("shift") {
            let by = src["by"].as_i64().unwrap();
            return self.src_bytes(x, (from as i64 + by) as usize, len);
        }
        if let Some(a) = src.get("splice") {
            let at = src["at"].as_u64().unwrap() as usize;
            let b = &src["then"];
            let mut v = vec![];
            for i in from..from + len {
                let s = if i < at { a } else { b };
                v.extend(self.src_bytes(s, i, 1)?);
            }
            return Some(v);
        }
        panic!("harness: bad src {src}");
    }

    fn junk(&self, o: &str, off: usize, len: usize) -> Vec<u8> {
        // junk is a fixed function of the output position (never all zero)
        let h = o.bytes().fold(7u64, |a, b| a.wrapping_mul(31).wrapping_add(b as u64));
        let _ = h;
        stream_bytes(self.seed, 4, 0, off, len).into_iter().map(|b| b | 1).collect()
    }

    fn guarded<T>(f: impl FnOnce() -> T) -> Result<T, ()> {
        // panics of the code under test are data; panics of the harness itself must stay loud
        GUARDED.with(|g| g.set(true));
        let r = catch_unwind(AssertUnwindSafe(f)).map_err(|_| ());
        GUARDED.with(|g| g.set(false));
        r
    }

    pub fn run(&mut self, cmds: &[Value]) {
        for c in cmds {
            self.step(c);
        }
    }

    fn io_event(&mut self, ev: &str, o: &str, inp: &[u8], junk: &Option<Vec<u8>>, r: Result<IoOut, ()>, extra: Value) {
        let mut e = json!({"ev": ev, "o": o, "in": inp, "b2b": junk.is_some(),
                           "junk": junk.clone().unwrap_or_default()});
        if let Value::Object(m) = extra {
            for (k, v) in m {
                e[k] = v;
            }
        }
        match r {
            Ok(io) => {
                e["res"] = json!(res_str(io.res));
                e["out"] = json!(io.out);
                e["outlen"] = json!(io.outlen);
                if io.res == Res::Ok {
                    let l = self.objs.get_mut(o).unwrap();
                    l.out.extend_from_slice(&io.out[..io.outlen.min(io.out.len())]);
                    l.off += inp.len();
                }
            }
            Err(()) => {
                e["res"] = json!("panic");
                e["out"] = json!([]);
                e["outlen"] = json!(0);
                self.objs.get_mut(o).unwrap().obj = None;
            }
        }
        self.events.push(e);
    }

    pub fn step(&mut self, c: &Value) {
        let op = c["op"].as_str().unwrap();
        let o = c["o"].as_str().unwrap_or("").to_string();
        match op {
            "new" => {
                let fac = fac_index(self.facs, c["fac"].as_str().unwrap()).expect("harness: unknown factory");
                let kind = c["kind"].as_str().unwrap().to_string();
                let dir = c["dir"].as_str().unwrap_or("ks").to_string();
                let via = c["via"].as_str().unwrap_or("inner");
                if !self.facs[fac].supports(&kind) {
                    self.skipped += 1;
                    return;
                }
                let key = self.key_bytes(fac, c);
                let iv = self.iv_bytes(fac, &kind, &key, c);
                let f = &self.facs[fac];
                let r = Self::guarded(|| f.make(&kind, &dir, &key, &iv, via, None));
                let (res, obj) = match r {
                    Ok(Ok(ob)) => ("ok", Some(ob)),
                    Ok(Err(Res::Unsupported)) => {
                        self.skipped += 1;
                        return;
                    }
                    Ok(Err(_)) => ("err", None),
                    Err(()) => ("panic", None),
                };
                // "into": build the new object in the storage of a live one (which is dropped in place by that)
                let (res, obj) = match (obj, c.get("into").and_then(|v| v.as_str())) {
                    (Some(ob), Some(slot)) => match self.objs.get_mut(slot).and_then(|sl| sl.obj.take()) {
                        Some(mut old) => {
                            let ty = ob.as_any().type_id();
                            if old.as_any().type_id() == ty {
                                let ok = Self::guarded(|| { let done = old.replace_with(ob); (done, old) });
                                match ok {
                                    Ok((true, old)) => (res, Some(old)),
                                    Ok((false, _)) => panic!("harness: in-place construction refused"),
                                    Err(()) => ("panic", None), // the old value's Drop panicked
                                }
                            } else {
                                (res, Some(ob))
                            }
                        }
                        None => (res, Some(ob)),
                    },
                    (ob, _) => (res, ob),
                };
                let cid = if key.len() == f.keylen() { f.cid(&key) } else { 0 };
                let unit = obj.as_ref().map(|x| x.unit()).unwrap_or(0);
                self.events.push(json!({"ev":"new","o":o,"kind":kind,"dir":dir,"c":cid,"w":f.w(),"bs":f.bs(),
                    "unit":unit,"fam":f.fam(),"iv":iv,"via":via,"keylen":key.len(),"ivlen":iv.len(),"res":res,
                    "from":"", "pos": -1}));
                self.objs.insert(o, Live { obj, fac, kind, dir, key, src: c["src"].clone(), off: 0, out: vec![],
                    last_export: None, iv });
            }
            "blocks" | "bytes" | "ks" => {
                let Some(l) = self.objs.get(&o) else { self.skipped += 1; return; };
                let Some(obj) = l.obj.as_ref() else { self.skipped += 1; return; };
                let unit = obj.unit();
                let n = c["n"].as_u64().unwrap() as usize;
                let len = if op == "bytes" { n } else { n * unit };
                let multi = c["multi"].as_bool().unwrap_or(true);
                let b2b = c["b2b"].as_bool().unwrap_or(false);
                // which family of entry points: plain (`encrypt_blocks`, `*_b2b`) or `*_inout`; unless the behaviour
                // says so, alternate deterministically with position and size
                let inout = c.get("inout").and_then(|v| v.as_bool()).unwrap_or((l.off / unit.max(1) + n) % 2 == 1);
                let inp = if op == "ks" { Some(vec![0u8; len]) } else { self.src_bytes(&l.src, l.off, len) };
                let Some(inp) = inp else { self.skipped += 1; return; };
                let junk = if b2b {
                    let jl = c.get("junklen").and_then(|v| v.as_u64()).map(|v| v as usize).unwrap_or(len);
                    Some(self.junk(&o, l.off, jl))
                } else {
                    None
                };
                let l = self.objs.get_mut(&o).unwrap();
                let obj = l.obj.as_mut().unwrap();
                let r = Self::guarded(|| match op {
                    "blocks" => obj.blocks(&inp, junk.as_deref(), multi, inout),
                    "bytes" => obj.bytes(&inp, junk.as_deref()),
                    _ => obj.ksblocks(n, multi),
                });
                if let Ok(io) = &r {
                    if io.res == Res::Unsupported {
                        self.skipped += 1;
                        return;
                    }
                }
                let evname = if op == "bytes" { "bytes" } else { "blocks" };
                self.io_event(evname, &o, &inp, &junk, r, json!({"multi": multi, "ks": op == "ks"}));
            }
            "oneshot" => {
                let Some(l) = self.objs.get(&o) else { self.skipped += 1; return; };
                if l.obj.is_none() { self.skipped += 1; return; }
                let n = c["n"].as_u64().unwrap() as usize;
                let b2b = c["b2b"].as_bool().unwrap_or(false);
                let how = c["how"].as_str().unwrap().to_string();
                let Some(inp) = self.src_bytes(&l.src, l.off, n) else { self.skipped += 1; return; };
                let junk = if b2b {
                    let jl = c.get("junklen").and_then(|v| v.as_u64()).map(|v| v as usize).unwrap_or(n);
                    Some(self.junk(&o, l.off, jl))
                } else {
                    None
                };
                let l = self.objs.get_mut(&o).unwrap();
                let obj = l.obj.take().unwrap();
                let inout = c.get("inout").and_then(|v| v.as_bool()).unwrap_or(n % 2 == 1);
                let r = Self::guarded(|| obj.oneshot(&how, &inp, junk.as_deref(), inout));
                if let Ok(io) = &r {
                    if io.res == Res::Unsupported {
                        self.skipped += 1;
                        return;
                    }
                }
                self.io_event("oneshot", &o, &inp, &junk, r, json!({"how": how}));
            }
            "seek" => {
                let Some(l) = self.objs.get_mut(&o) else { self.skipped += 1; return; };
                let bs = self.facs[l.fac].bs() as u128;
                let Some(obj) = l.obj.as_mut() else { self.skipped += 1; return; };
                let t = c["t"].as_str().unwrap();
                let p: u128 = resolve_pos(&c["p"], &l.kind, bs);
                let r = Self::guarded(|| obj.seek(t, p));
                let res = match r {
                    Ok(Res::Unsupported) => { self.skipped += 1; return; }
                    Ok(x) => res_str(x),
                    Err(()) => { l.obj = None; "panic" }
                };
                self.events.push(json!({"ev":"seek","o":o,"t":t,"p":digits(p),"res":res}));
            }
            "pos" => {
                let Some(l) = self.objs.get(&o) else { self.skipped += 1; return; };
                let Some(obj) = l.obj.as_ref() else { self.skipped += 1; return; };
                let t = c["t"].as_str().unwrap();
                let r = Self::guarded(|| obj.pos(t));
                let (res, v) = match r {
                    Ok(None) => { self.skipped += 1; return; }
                    Ok(Some(Some(v))) => ("ok", v),
                    Ok(Some(None)) => ("err", 0),
                    Err(()) => ("panic", 0),
                };
                self.events.push(json!({"ev":"pos","o":o,"t":t,"res":res,"v":digits(v)}));
            }
            "rem" => {
                let Some(l) = self.objs.get(&o) else { self.skipped += 1; return; };
                let Some(obj) = l.obj.as_ref() else { self.skipped += 1; return; };
                let r = Self::guarded(|| (obj.rem(), obj.bpos()));
                match r {
                    Ok((None, _)) => { self.skipped += 1; }
                    Ok((Some(v), bp)) => self.events.push(json!({"ev":"rem","o":o,"some":v.is_some(),
                        "v":digits(v.unwrap_or(0)),"hasbpos":bp.is_some(),"bpos":digits(bp.unwrap_or(0)),"res":"ok"})),
                    Err(()) => self.events.push(json!({"ev":"rem","o":o,"some":false,"v":[],"hasbpos":false,"bpos":[],"res":"panic"})),
                }
            }
            "setbpos" => {
                let Some(l) = self.objs.get_mut(&o) else { self.skipped += 1; return; };
                let bs = self.facs[l.fac].bs() as u128;
                let Some(obj) = l.obj.as_mut() else { self.skipped += 1; return; };
                // v is a block index; {"end":k} counts blocks back from the keystream end
                let _ = bs;
                let v: u128 = match c["v"].get("end") {
                    Some(k) => {
                        let bits = ctr_bits(&l.kind).expect("harness: end-relative block on unbounded stream");
                        let blocks: u128 = if bits == 128 { u128::MAX } else { (1u128 << bits) - 1 };
                        blocks - (-k.as_i64().unwrap()) as u128
                    }
                    None => c["v"].as_str().unwrap().parse().unwrap(),
                };
                let r = Self::guarded(|| obj.set_bpos(v));
                let r = match r {
                    Ok(Res::Unsupported) if ctr_bits(&l.kind).is_some() && l.off == 0 => {
                        // byte-level wrapper: position the core first, then wrap it (from_core path)
                        let f = &self.facs[l.fac];
                        let (kind, dir, key, iv) = (l.kind.clone(), l.dir.clone(), l.key.clone(), l.iv.clone());
                        match Self::guarded(|| f.make(&kind, &dir, &key, &iv, "inner", Some(v))) {
                            Ok(Ok(ob)) => { l.obj = Some(ob); Ok(Res::Ok) }
                            Ok(Err(e)) => Ok(e),
                            Err(()) => Err(()),
                        }
                    }
                    x => x,
                };
                let res = match r {
                    Ok(Res::Unsupported) => { self.skipped += 1; return; }
                    Ok(x) => res_str(x),
                    Err(()) => { l.obj = None; "panic" }
                };
                self.events.push(json!({"ev":"setbpos","o":o,"v":digits(v),"res":res}));
            }
            "export" => {
                let Some(l) = self.objs.get_mut(&o) else { self.skipped += 1; return; };
                let Some(obj) = l.obj.as_ref() else { self.skipped += 1; return; };
                let r = Self::guarded(|| obj.export());
                match r {
                    Ok(None) => { self.skipped += 1; }
                    Ok(Some((st, pos))) => {
                        l.last_export = Some((st.clone(), pos));
                        self.events.push(json!({"ev":"export","o":o,"v":st,"pos":pos,"res":"ok"}));
                    }
                    Err(()) => self.events.push(json!({"ev":"export","o":o,"v":[],"pos":-1,"res":"panic"})),
                }
            }
            "import" => {
                // fresh object under the same key from the last exported state of `from`
                let from = c["from"].as_str().unwrap().to_string();
                {
                    let Some(l) = self.objs.get_mut(&from) else { self.skipped += 1; return; };
                    let Some(obj) = l.obj.as_ref() else { self.skipped += 1; return; };
                    match Self::guarded(|| obj.export()) {
                        Ok(Some((st, pos))) => {
                            l.last_export = Some((st.clone(), pos));
                            self.events.push(json!({"ev":"export","o":from,"v":st,"pos":pos,"res":"ok"}));
                        }
                        _ => { self.skipped += 1; return; }
                    }
                }
                let Some(l) = self.objs.get(&from) else { self.skipped += 1; return; };
                let Some((st, pos)) = l.last_export.clone() else { self.skipped += 1; return; };
                let (fac, kind, key, src, off) = (l.fac, l.kind.clone(), l.key.clone(), l.src.clone(), l.off);
                let dir = c["dir"].as_str().map(|s| s.to_string()).unwrap_or(l.dir.clone());
                // a byte-level wrapper is resumed from its core state at a block boundary
                let f = &self.facs[fac];
                let r = Self::guarded(|| f.import(&kind, &dir, &key, &st, pos));
                let (res, obj) = match r {
                    Ok(Ok(ob)) => ("ok", Some(ob)),
                    Ok(Err(Res::Unsupported)) => { self.skipped += 1; return; }
                    Ok(Err(_)) => ("err", None),
                    Err(()) => ("panic", None),
                };
                let unit = obj.as_ref().map(|x| x.unit()).unwrap_or(0);
                self.events.push(json!({"ev":"new","o":o,"kind":kind,"dir":dir,"c":f.cid(&key),"w":f.w(),"bs":f.bs(),
                    "unit":unit,"fam":f.fam(),"iv":st,"via":"import","keylen":key.len(),"ivlen":st.len(),"res":res,
                    "from":from,"pos":pos}));
                let src = c.get("src").cloned().unwrap_or(src);
                self.objs.insert(o, Live { obj, fac, kind, dir, key, src, off, out: vec![], last_export: None, iv: st });
            }
            "clone" => {
                let from = c["from"].as_str().unwrap().to_string();
                let into = c.get("into").and_then(|v| v.as_str()).map(|x| x.to_string());
                let Some(l) = self.objs.get(&from) else { self.skipped += 1; return; };
                let Some(obj) = l.obj.as_ref() else { self.skipped += 1; return; };
                let (res, nobj, how) = match &into {
                    // Clone::clone_from into an existing, live object of the same type
                    Some(d) => {
                        let Some(mut dl) = self.objs.remove(d) else { self.skipped += 1; return; };
                        let l = self.objs.get(&from).unwrap();
                        let obj = l.obj.as_ref().unwrap();
                        let Some(mut dobj) = dl.obj.take() else { self.skipped += 1; return; };
                        let r = Self::guarded(|| dobj.clone_from_obj(obj.as_ref()));
                        match r {
                            Ok(true) => ("ok", Some(dobj), "clone_from"),
                            Ok(false) => { self.skipped += 1; dl.obj = Some(dobj); self.objs.insert(d.clone(), dl); return; }
                            Err(()) => ("panic", None, "clone_from"),
                        }
                    }
                    None => {
                        let r = Self::guarded(|| obj.clone_box());
                        match r {
                            Ok(None) => { self.skipped += 1; return; }
                            Ok(Some(b)) => ("ok", Some(b), "clone"),
                            Err(()) => ("panic", None, "clone"),
                        }
                    }
                };
                let l = self.objs.get(&from).unwrap();
                let src = match c.get("src") {
                    Some(s) => json!({"splice": l.src, "at": l.off, "then": s}),
                    None => l.src.clone(),
                };
                let nl = Live { obj: nobj, fac: l.fac, kind: l.kind.clone(), dir: l.dir.clone(), key: l.key.clone(),
                    src, off: l.off, out: l.out.clone(), last_export: l.last_export.clone(), iv: l.iv.clone() };
                self.events.push(json!({"ev":"clone","o":o,"from":from,"res":res,"how":how}));
                self.objs.insert(o, nl);
            }
            "debug" => {
                let Some(l) = self.objs.get(&o) else { self.skipped += 1; return; };
                let Some(obj) = l.obj.as_ref() else { self.skipped += 1; return; };
                let r = Self::guarded(|| obj.debug());
                match r {
                    Ok(None) => { self.skipped += 1; }
                    Ok(Some(d)) => self.events.push(json!({"ev":"debug","o":o,"type":d.ty,"text":d.text,"alg":d.alg,"res":"ok"})),
                    Err(()) => self.events.push(json!({"ev":"debug","o":o,"type":"","text":"","alg":"","res":"panic"})),
                }
            }
            "drop" => {
                let Some(l) = self.objs.get_mut(&o) else { self.skipped += 1; return; };
                let Some(obj) = l.obj.as_ref() else { self.skipped += 1; return; };
                // secrets: IV, last exported state, next keystream/output block (from a clone fed zeros), the block
                // counter (when it has enough entropy to be recognisable), BelT's E(IV); each also byte-reversed
                // (a big-endian counter word is kept numerically, i.e. reversed on this machine)
                let mut secrets: Vec<Vec<u8>> = vec![l.iv.clone()];
                if let Some((st, _)) = obj.export() {
                    secrets.push(st);
                }
                if let Some(mut cl) = obj.clone_box() {
                    let bs = self.facs[l.fac].bs();
                    let z = vec![0u8; bs];
                    let io = if cl.unit() == 1 && !l.kind.starts_with("cfb8") { cl.bytes(&z, None) } else { cl.blocks(&z, None, false, false) };
                    if io.res == Res::Ok {
                        secrets.push(io.out);
                    }
                }
                if let Some(bp) = obj.bpos() {
                    secrets.push(bp.to_le_bytes().to_vec());
                }
                if l.kind.starts_with("belt") {
                    let bs = self.facs[l.fac].bs();
                    if let Ok(mut e) = self.facs[l.fac].make("cbc", "enc", &l.key, &vec![0u8; bs], "inner", None) {
                        secrets.push(e.blocks(&l.iv, None, false, false).out);
                    }
                }
                let rev: Vec<Vec<u8>> = secrets.iter().map(|x| x.iter().rev().cloned().collect()).collect();
                secrets.extend(rev);
                let obj = l.obj.take().unwrap();
                let r = Self::guarded(|| obj.drop_image());
                match r {
                    Ok(img) => self.events.push(json!({"ev":"drop","o":o,"image":img,"secrets":secrets,"res":"ok"})),
                    Err(()) => self.events.push(json!({"ev":"drop","o":o,"image":[],"secrets":[],"res":"panic"})),
                }
            }
            _ => panic!("harness: unknown op {op}"),
        }
    }

    /// finish: header (with cipher tables) followed by the events
    pub fn finish(self, id: u64, prop: &str, generator: &str, _beh: &Value) -> Vec<Value> {
        let log = take_log();
        let ncid = log.iter().map(|p| p.cid).max().unwrap_or(0) as usize;
        // per cipher: the function graph y = E(x), bucketed by the first byte of x ("e") and of y ("d")
        // so that the specification's lookup scans a handful of pairs instead of the whole table
        let mut eb: Vec<Vec<Vec<Value>>> = vec![vec![vec![]; 256]; ncid];
        let mut db: Vec<Vec<Vec<Value>>> = vec![vec![vec![]; 256]; ncid];
        let mut seen: Vec<std::collections::HashSet<(Vec<u8>, bool)>> = vec![Default::default(); ncid];
        let mut ndec = vec![0usize; ncid];
        let mut npairs = vec![0usize; ncid];
        for p in log {
            let i = (p.cid - 1) as usize;
            if p.x.is_empty() {
                continue;
            }
            if seen[i].insert((p.x.clone(), p.dec)) {
                let rec = json!([p.x, p.y]);
                eb[i][p.x[0] as usize].push(rec.clone());
                db[i][p.y[0] as usize].push(rec);
                npairs[i] += 1;
                if p.dec {
                    ndec[i] += 1;
                }
            }
        }
        let tabs: Vec<Value> = (0..ncid).map(|i| json!({"e": eb[i], "d": db[i], "n": npairs[i], "ndec": ndec[i]})).collect();
        let mut v = vec![json!({"ev":"scn","id":id,"prop":prop,"gen":generator,"seed":self.seed.to_string(),
            "n": self.events.len(), "tabs": tabs, "skipped": self.skipped, "twin": self.twin})];
        v.extend(self.events);
        v
    }
}

/// position spec: decimal string, or {"end": k} = (keystream length in bytes) + k
pub fn resolve_pos(p: &Value, kind: &str, bs: u128) -> u128 {
    if let Some(s) = p.as_str() {
        return s.parse().unwrap();
    }
    if let Some(k) = p.get("end") {
        let k = k.as_i64().unwrap();
        let bits = ctr_bits(kind).expect("harness: end-relative position on unbounded stream");
        // (2^bits - 1) * bs may exceed u128 for 128-bit counters: saturate (callers use it only via setbpos then)
        let blocks: u128 = if bits == 128 { u128::MAX } else { (1u128 << bits) - 1 };
        let end = blocks.saturating_mul(bs);
        return if k < 0 { end - (-k) as u128 } else { end.saturating_add(k as u128) };
    }
    panic!("harness: bad position {p}");
}
