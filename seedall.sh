#!/bin/bash
# regression over all seeded changes: each must be caught by the check of the property it breaks
cd /verif
for d in seeded/*/; do
  id=$(basename $d); prop=$(python3 -c "import json;print(json.load(open('$d/meta.json'))['breaks_property'])")
  r=$(./seedtest.sh $d/patch.diff $prop 2>&1 | grep "^== ")
  echo "$id $r"
done
