#!/bin/bash
# usage: seedtest.sh <patch.diff> <check ids...>
# Applies a seeded change to a SCRATCH checkout of /repo (/tmp/seedrepo, a git worktree), runs the quick checks
# against it (VERIF_REPO), and removes the change again.  /repo itself is never touched.
set -u
PATCH=$(readlink -f "$1"); shift
SR=${SEEDREPO:-/tmp/seedrepo}
if [ ! -d $SR ]; then git -C /repo worktree add -q --detach $SR HEAD || exit 2; fi
git -C $SR checkout -q --detach "$(git -C /repo rev-parse HEAD)" && git -C $SR checkout -q -- . && git -C $SR clean -fdq
git -C $SR apply "$PATCH" || { echo "patch does not apply"; exit 2; }
cd /verif
for p in "$@"; do
  out=$(VERIF_REPO=$SR ./check $p 2>&1); rc=$?
  echo "== $p exit=$rc $(echo "$out" | grep -cE '^VIOLATION') violation lines; $(echo "$out" | grep -E 'TOOL-ERROR|quick:' | tail -1)"
done
git -C $SR checkout -q -- . ; git -C $SR clean -fdq
