#!/bin/bash
# usage: seedtest.sh <patch.diff> <check ids...>   -- apply a seeded change to /repo, run checks, undo
set -u
PATCH=$1; shift
cd /repo || exit 2
git diff --quiet || { echo "repo dirty"; exit 2; }
git apply "$PATCH" || { echo "patch does not apply"; exit 2; }
cd /verif
for p in "$@"; do
  out=$(./check $p 2>&1); rc=$?
  echo "== $p exit=$rc $(echo "$out" | grep -cE '^VIOLATION') violation lines; $(echo "$out" | grep -E 'TOOL-ERROR|quick:' | tail -1)"
done
git -C /repo checkout -- . ; git -C /repo status --short | head -3
